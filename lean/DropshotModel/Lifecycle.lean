/-
Lifecycle model for C16 (and the base layer of C17 / C18): a labelled
transition system for the handler life cycle of one dropshot server, written
from `dropshot/src/server.rs`:

* `http_request_handle` (server.rs 890-989).  `HandlerTaskMode::CancelOnDisconnect`
  (923-928) awaits `handler.handle_request` *inline* in the service future that
  hyper owns: when hyper drops that future (it noticed the client is gone) the
  handler future is dropped with it.  `HandlerTaskMode::Detached` (929-982)
  `tokio::spawn`s the handler and awaits a oneshot: dropping the service
  future only drops the receiver, the spawned task keeps running to its end
  (939-955: "request completed after handler was already cancelled").
* a panic in the handler: inline in cancel mode; in detached mode the task
  drops `tx`, `rx.await` fails and the panic is re-raised with
  `panic::resume_unwind` (967-980).  Either way it unwinds the hyper connection
  task of *that* connection (spawned per connection, server.rs 304-313) and
  nothing else.
* hyper's HTTP/1 connection serves one request at a time, so a connection has
  at most one running handler (`busy`).

The state is a record of total functions so that "connection `c`'s component"
and "request `r`'s component" are literally `s.gone c`, `s.req r`, ….

`step m s e = none` means: event `e` is not enabled in state `s`.
Only core Lean; everything is computable.
-/
namespace Dropshot.Lifecycle

inductive Mode
  | detached
  | cancel
  deriving DecidableEq, Repr

/-- Event alphabet (DESIGN.md Appendix C).  `c` connection id, `r` request id. -/
inductive Event
  | reqSent (c r : Nat)      -- client: the bytes completing the request head are about to be written
  | start (r : Nat)          -- handler entered
  | tick (r : Nat)           -- handler made progress
  | disconnect (c : Nat)     -- client is about to give up connection c (FIN / RST / close)
  | done (r : Nat)           -- handler returned (its last statement)
  | drop (r : Nat)           -- handler future dropped before `done`
  | panic (r : Nat)          -- handler is about to panic
  | respDelivered (r : Nat)  -- client read the complete response
  deriving DecidableEq, Repr

inductive HState
  | notStarted
  | running
  | completed
  | cancelled
  | panicked
  deriving DecidableEq, Repr

structure ReqInfo where
  /-- connection the request was sent on (`none`: not sent yet) -/
  conn : Option Nat := none
  h : HState := .notStarted
  delivered : Bool := false

structure State where
  req : Nat → ReqInfo
  /-- the client of connection `c` has given it up -/
  gone : Nat → Bool
  /-- connection `c`'s server task was unwound by a handler panic -/
  dead : Nat → Bool
  /-- the request whose handler currently runs on connection `c` (HTTP/1: at most one) -/
  busy : Nat → Option Nat

def init : State :=
  { req := fun _ => {}, gone := fun _ => false, dead := fun _ => false, busy := fun _ => none }

/-- Function update. -/
def upd {α : Type} (f : Nat → α) (k : Nat) (v : α) : Nat → α :=
  fun x => if x = k then v else f x

@[simp] theorem upd_apply {α : Type} (f : Nat → α) (k : Nat) (v : α) (x : Nat) :
    upd f k v x = if x = k then v else f x := rfl

/-- Clear the `busy` mark of the connection request `r` runs on. -/
def clearBusy (s : State) (r : Nat) : Nat → Option Nat :=
  match (s.req r).conn with
  | some c => upd s.busy c none
  | none => s.busy

/-- Handler `r` leaves `running` with final state `h`. -/
def finish (s : State) (r : Nat) (h : HState) : State :=
  { s with req := upd s.req r { (s.req r) with h := h }, busy := clearBusy s r }

def step (m : Mode) (s : State) : Event → Option State
  | .reqSent c r =>
    -- a client writes a request on a connection it has not given up
    if (s.req r).conn = none ∧ s.gone c = false then
      some { s with req := upd s.req r { (s.req r) with conn := some c } }
    else none
  | .start r =>
    -- hyper calls the service once per parsed request, one at a time per connection
    match (s.req r).conn with
    | some c =>
      if (s.req r).h = .notStarted ∧ s.dead c = false ∧ s.busy c = none then
        some { s with req := upd s.req r { (s.req r) with h := .running },
                      busy := upd s.busy c (some r) }
      else none
    | none => none
  | .tick r =>
    if (s.req r).h = .running then some s else none
  | .disconnect c =>
    -- touches nothing but the client side of connection c
    if s.gone c = false then some { s with gone := upd s.gone c true } else none
  | .done r =>
    if (s.req r).h = .running then some (finish s r .completed) else none
  | .drop r =>
    -- only the inline (cancel-mode) handler future is owned by the connection,
    -- and hyper drops it only after it saw the client of *that* connection leave;
    -- a detached handler is an independent task: never dropped (server.rs 929-960)
    match m, (s.req r).conn with
    | .cancel, some c =>
      if (s.req r).h = .running ∧ s.gone c = true then some (finish s r .cancelled) else none
    | _, _ => none
  | .panic r =>
    -- unwinds the connection task of r's connection (server.rs 927 / 979)
    match (s.req r).conn with
    | some c =>
      if (s.req r).h = .running then
        some { finish s r .panicked with dead := upd s.dead c true }
      else none
    | none => none
  | .respDelivered r =>
    match (s.req r).conn with
    | some c =>
      if (s.req r).h = .completed ∧ (s.req r).delivered = false ∧ s.gone c = false
          ∧ s.dead c = false then
        some { s with req := upd s.req r { (s.req r) with delivered := true } }
      else none
    | none => none

/-- Run a trace from `s`; `none` as soon as an event is not enabled. -/
def run (m : Mode) (s : State) : List Event → Option State
  | [] => some s
  | e :: tr =>
    match step m s e with
    | some s' => run m s' tr
    | none => none

/-- The monitor. -/
def accepts (m : Mode) (tr : List Event) : Bool := (run m init tr).isSome

/-- Index of the first event that is not enabled (for diagnostics). -/
def firstRejected (m : Mode) : State → List Event → Nat → Option (Nat × Event)
  | _, [], _ => none
  | s, e :: tr, i =>
    match step m s e with
    | some s' => firstRejected m s' tr (i + 1)
    | none => some (i, e)

/-- Terminal condition: no handler is still running. -/
def Quiescent (s : State) : Prop := ∀ r, (s.req r).h ≠ .running

/-- Requests mentioned in a trace. -/
def reqOf : Event → Option Nat
  | .reqSent _ r | .start r | .tick r | .done r | .drop r | .panic r | .respDelivered r => some r
  | .disconnect _ => none

def reqsOf (tr : List Event) : List Nat := tr.filterMap reqOf

/-- Executable terminal check over the requests that occur in the trace. -/
def quiescentOn (rs : List Nat) (s : State) : Bool :=
  rs.all fun r => decide ((s.req r).h ≠ .running)

/-- Monitor with the terminal condition: accepted and quiescent. -/
def acceptsQuiescent (m : Mode) (tr : List Event) : Bool :=
  match run m init tr with
  | some s => quiescentOn (reqsOf tr) s
  | none => false

end Dropshot.Lifecycle
