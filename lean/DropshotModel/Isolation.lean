/-
Isolation model for C18 ("hostile or broken traffic cannot take the server
down").  Three parts:

(a) `handle` / `wrap`: the error mapping of `http_request_handle` and
    `http_request_handle_wrap` (server.rs 733-989), arm for arm.  Every early
    return of `http_request_handle` is a `HandlerError`:
      * 906-907 `version_policy.request_version(..)?`      → `Dropshot(HttpError)`
      * 908-912 `router.lookup_route(..)?`                 → `Dropshot(HttpError)`
      * 927/937 `handler.handle_request(..).await?`: a failed extractor is an
        `HttpError` (→ `Dropshot`); a handler's own error `E: HttpResponseError`
        goes through `From<E> for HandlerError` (handler.rs 366-378): status =
        `e.status_code() : ErrorStatusCode`, response built by `to_response`;
        if that fails the fallback `HttpError` is kept (`Dropshot`); for
        `E = HttpError` `to_response` always "fails" with itself (handler.rs
        984-1005), so it also ends as `Dropshot`;
      * a response that cannot be produced (`to_result`) is an `HttpError`.
    `http_request_handle_wrap` (834-885): `Err(error) => error.into_response(..)`
    (status `error.status_code()`), `Ok(response) => response`.
    `HttpError.status_code : ErrorStatusCode`, and `ErrorStatusCode` can only be
    constructed for 400..599 (error_status_code.rs `from_u16`/`try_from`).
(b) the isolation LTS: the lifecycle LTS plus a listener flag and one fault
    slot per connection; `Fault c f` touches connection `c` only.
(c) executable recognisers `wellFormedRequest`, `countRequests`,
    `validResponses` — the run-time oracle (not used by theorems about (b)).

Core Lean only.
-/
import DropshotModel.Lifecycle

namespace Dropshot.Isolation
open Dropshot.Lifecycle (Mode upd)

/-! ## (a) error mapping -/

/-- `dropshot::ErrorStatusCode`: a status code that is a client or server error. -/
structure ErrorStatusCode where
  code : Nat
  isError : 400 ≤ code ∧ code ≤ 599

/-- `ErrorStatusCode::from_u16`. -/
def ErrorStatusCode.ofNat? (n : Nat) : Option ErrorStatusCode :=
  if h : 400 ≤ n ∧ n ≤ 599 then some ⟨n, h⟩ else none

/-- `dropshot::HttpError` (only the field that decides the status). -/
structure HttpError where
  status : ErrorStatusCode

/-- handler.rs 290-309. -/
inductive HandlerError
  | handler (rspStatus : ErrorStatusCode)   -- `Handler { rsp, .. }`: rsp built with `.status(status.as_status())`
  | dropshot (e : HttpError)

/-- handler.rs 312-317. -/
def HandlerError.statusCode : HandlerError → Nat
  | .handler st => st.code
  | .dropshot e => e.status.code

structure Response where
  status : Nat

/-- handler.rs 333-363 / error.rs 389-440: both arms keep the error's status. -/
def HandlerError.intoResponse (e : HandlerError) : Response := ⟨e.statusCode⟩

/-- A user error type `E: HttpResponseError` (`status_code()`, and whether
`to_response` succeeds; when it does not, the `HttpError` it returns). -/
structure UserError where
  status : ErrorStatusCode
  toResponseFails : Option HttpError

/-- handler.rs 366-378 `impl<E: HttpResponseError> From<E> for HandlerError`. -/
def HandlerError.ofUser (e : UserError) : HandlerError :=
  match e.toResponseFails with
  | none => .handler e.status
  | some he => .dropshot he

/-- What happens to a request that hyper handed to dropshot: the point at which
`http_request_handle` returns. -/
inductive Outcome
  | versionErr (e : HttpError)
  | routeErr (e : HttpError)
  | extractorErr (e : HttpError)
  | handlerErr (e : UserError)
  | responseErr (e : HttpError)
  | ok (status : Nat)

/-- server.rs 890-989. -/
def handle : Outcome → Except HandlerError Response
  | .versionErr e => .error (.dropshot e)
  | .routeErr e => .error (.dropshot e)
  | .extractorErr e => .error (.dropshot e)
  | .handlerErr e => .error (.ofUser e)
  | .responseErr e => .error (.dropshot e)
  | .ok st => .ok ⟨st⟩

/-- server.rs 834-885, the `match maybe_response`. -/
def wrap : Except HandlerError Response → Response
  | .error e => e.intoResponse
  | .ok r => r

/-- A request as the server sees it: rejected by hyper's parser (it never
reaches dropshot; hyper answers 400/414/431/… itself or just closes), or
handed over with some outcome. -/
inductive Request
  | malformed (hyperStatus : ErrorStatusCode)
  | wellFormed (o : Outcome)

def answer : Request → Response
  | .malformed st => ⟨st.code⟩
  | .wellFormed o => wrap (handle o)

/-- The health request: routed, extracted, handler returns 200. -/
def healthRequest : Request := .wellFormed (.ok 200)

/-! ## (b) isolation LTS -/

inductive FaultKind
  | garbage
  | truncate (k : Nat)
  | oversize
  | badHeader
  | disconnect
  | handlerPanic
  deriving DecidableEq, Repr

inductive Event
  | lc (e : Lifecycle.Event)
  | fault (c : Nat) (f : FaultKind)   -- the client of c is about to inject fault f
  | health (ok : Bool)                -- a health request on a fresh connection was answered 200 (or not)
  deriving DecidableEq, Repr

structure State where
  lc : Lifecycle.State
  /-- the listening socket and accept loop -/
  listenerUp : Bool
  /-- fault injected on connection c -/
  faulted : Nat → Option FaultKind

def init : State := { lc := Lifecycle.init, listenerUp := true, faulted := fun _ => none }

/-- All there is to know about connection `c` apart from its requests. -/
def connView (s : State) (c : Nat) : Option FaultKind × Bool × Bool × Option Nat :=
  (s.faulted c, s.lc.gone c, s.lc.dead c, s.lc.busy c)

/-- Client-side flag of connection `c` after its client injected fault `f`. -/
def goneAfterFault (f : FaultKind) (g : Nat → Bool) (c : Nat) : Nat → Bool :=
  if f = .handlerPanic then g else upd g c true

def step (m : Mode) (s : State) : Event → Option State
  | .lc e =>
    match Lifecycle.step m s.lc e with
    | some l => some { s with lc := l }
    | none => none
  | .fault c f =>
    -- a fault is something the client of c does to its own connection; the
    -- connection task of c (server.rs 304-313: one task per connection) is the
    -- only server-side thing that sees it.  Except for the panicking handler
    -- (the client then waits for the connection to die) the client is done
    -- with the connection.
    if s.faulted c = none ∧ s.lc.gone c = false then
      some { s with faulted := upd s.faulted c (some f),
                    lc := { s.lc with gone := goneAfterFault f s.lc.gone c } }
    else none
  | .health ok =>
    -- a fresh connection is accepted and served iff the listener is up
    if ok = s.listenerUp then some s else none

def run (m : Mode) (s : State) : List Event → Option State
  | [] => some s
  | e :: tr =>
    match step m s e with
    | some s' => run m s' tr
    | none => none

def accepts (m : Mode) (tr : List Event) : Bool := (run m init tr).isSome

def firstRejected (m : Mode) : State → List Event → Nat → Option (Nat × Event)
  | _, [], _ => none
  | s, e :: tr, i =>
    match step m s e with
    | some s' => firstRejected m s' tr (i + 1)
    | none => some (i, e)

def lcTrace : List Event → List Lifecycle.Event
  | [] => []
  | .lc e :: tr => e :: lcTrace tr
  | _ :: tr => lcTrace tr

/-- Terminal condition of a fault sequence: accepted, no handler still running. -/
def acceptsQuiescent (m : Mode) (tr : List Event) : Bool :=
  match run m init tr with
  | some s => Lifecycle.quiescentOn (Lifecycle.reqsOf (lcTrace tr)) s.lc
  | none => false

/-- Connection `c` can take a new request. -/
def usable (s : State) (c : Nat) : Bool :=
  s.faulted c == none && !s.lc.gone c && !s.lc.dead c && s.lc.busy c == none

/-- What the model answers to request `q` arriving on connection `c`. -/
def respond (s : State) (c : Nat) (q : Request) : Option Response :=
  if s.listenerUp && usable s c then some (answer q) else none

/-! ## (c) recognisers (run-time oracle) -/

abbrev Bytes := List UInt8

structure Limits where
  maxUri : Nat := 65534        -- http::Uri
  maxHeaders : Nat := 100      -- hyper's httparse header array
  /-- hyper's default max_buf_size is 8192 + 4096 * 100 = 417792, checked after each
  read while the head is incomplete; a read adds at most that much, so a head is
  *certainly* refused only beyond twice that size (observed: 430 060 bytes accepted) -/
  maxHead : Nat := 835584
  maxBody : Nat := 1024        -- the harness server's default_request_body_max_bytes

def isDigit (b : UInt8) : Bool := 0x30 ≤ b && b ≤ 0x39
def isAlpha (b : UInt8) : Bool := (0x41 ≤ b && b ≤ 0x5A) || (0x61 ≤ b && b ≤ 0x7A)
def isHex (b : UInt8) : Bool := isDigit b || (0x41 ≤ b && b ≤ 0x46) || (0x61 ≤ b && b ≤ 0x66)

/-- RFC 9110 `tchar`. -/
def isTchar (b : UInt8) : Bool :=
  isDigit b || isAlpha b ||
  [0x21, 0x23, 0x24, 0x25, 0x26, 0x27, 0x2A, 0x2B, 0x2D, 0x2E, 0x5E, 0x5F, 0x60, 0x7C, 0x7E].contains b

/-- field-content byte: HTAB, SP, VCHAR, obs-text. -/
def isFieldByte (b : UInt8) : Bool := b == 9 || (0x20 ≤ b && b != 0x7F)

/-- request-target byte (lenient): anything visible, obs-text included. -/
def isTargetByte (b : UInt8) : Bool := 0x21 ≤ b && b != 0x7F

def lower (b : UInt8) : UInt8 := if 0x41 ≤ b && b ≤ 0x5A then b + 32 else b

/-- Split off the first line (terminated by LF, a preceding CR is dropped).
`none`: no LF in the input. -/
def takeLineAux : Bytes → Bytes → Option (Bytes × Bytes)
  | [], _ => none
  | b :: rest, acc =>
    if b == 10 then
      let line := match acc with
        | 13 :: acc' => acc'.reverse
        | _ => acc.reverse
      some (line, rest)
    else takeLineAux rest (b :: acc)

def takeLine (bs : Bytes) : Option (Bytes × Bytes) := takeLineAux bs []

def splitOnByteAux (sep : UInt8) : Bytes → Bytes → List Bytes → List Bytes
  | [], cur, acc => (cur.reverse :: acc).reverse
  | b :: rest, cur, acc =>
    if b == sep then splitOnByteAux sep rest [] (cur.reverse :: acc)
    else splitOnByteAux sep rest (b :: cur) acc

def splitOnByte (sep : UInt8) (bs : Bytes) : List Bytes := splitOnByteAux sep bs [] []

def trimOws (bs : Bytes) : Bytes :=
  let f := fun (b : UInt8) => b == 32 || b == 9
  ((bs.dropWhile f).reverse.dropWhile f).reverse

/-- ASCII bytes of a character list (kernel-reducible, unlike `String.toUTF8`). -/
def ascii (cs : List Char) : Bytes := cs.map fun c => c.toNat.toUInt8

def bHttp11 : Bytes := ascii ['H', 'T', 'T', 'P', '/', '1', '.', '1']
def bHttp10 : Bytes := ascii ['H', 'T', 'T', 'P', '/', '1', '.', '0']
def bChunked : Bytes := ascii ['c', 'h', 'u', 'n', 'k', 'e', 'd']
def bTransferEncoding : Bytes :=
  ascii ['t', 'r', 'a', 'n', 's', 'f', 'e', 'r', '-', 'e', 'n', 'c', 'o', 'd', 'i', 'n', 'g']
def bContentLength : Bytes :=
  ascii ['c', 'o', 'n', 't', 'e', 'n', 't', '-', 'l', 'e', 'n', 'g', 't', 'h']

def natOfDigits (bs : Bytes) : Option Nat :=
  if bs.isEmpty || !bs.all isDigit then none
  else some (bs.foldl (fun n b => n * 10 + (b.toNat - 48)) 0)

def hexVal (b : UInt8) : Nat :=
  if isDigit b then b.toNat - 48 else if 0x41 ≤ b && b ≤ 0x46 then b.toNat - 55 else b.toNat - 87

def natOfHex (bs : Bytes) : Option Nat :=
  if bs.isEmpty || !bs.all isHex then none
  else some (bs.foldl (fun n b => n * 16 + hexVal b) 0)

inductive Parse (α : Type)
  | ok (a : α)
  | incomplete
  | invalid

/-- `METHOD SP target SP HTTP/1.x`. -/
def validRequestLine (lim : Limits) (line : Bytes) : Bool :=
  match splitOnByte 32 line with
  | [m, t, v] =>
    !m.isEmpty && m.all isTchar && !t.isEmpty && t.all isTargetByte && t.length ≤ lim.maxUri &&
      (v == bHttp11 || v == bHttp10)
  | _ => false

/-- `name ":" OWS value OWS` → (lower-cased name, trimmed value). -/
def parseHeaderLine (line : Bytes) : Option (Bytes × Bytes) :=
  let name := line.takeWhile (· != 58)
  let rest := line.dropWhile (· != 58)
  match rest with
  | [] => none
  | _ :: value =>
    if name.isEmpty || !name.all isTchar || !value.all isFieldByte then none
    else some (name.map lower, trimOws value)

/-- Header block: lines up to the empty line.  `fuel` bounds the number of lines. -/
def parseHeaders (lim : Limits) : Nat → Bytes → List (Bytes × Bytes) → Parse (List (Bytes × Bytes) × Bytes)
  | 0, _, _ => .invalid
  | fuel + 1, bs, acc =>
    match takeLine bs with
    | none => .incomplete
    | some (line, rest) =>
      if line.isEmpty then .ok (acc.reverse, rest)
      else if acc.length ≥ lim.maxHeaders then .invalid
      else match parseHeaderLine line with
        | none => .invalid
        | some h => parseHeaders lim fuel rest (h :: acc)

def skipEmptyLines : Nat → Bytes → Bytes
  | 0, bs => bs
  | fuel + 1, bs =>
    match bs with
    | 13 :: 10 :: rest => skipEmptyLines fuel rest
    | 10 :: rest => skipEmptyLines fuel rest
    | _ => bs

def headerValues (name : Bytes) (hs : List (Bytes × Bytes)) : List Bytes :=
  (hs.filter fun h => h.1 == name).map (·.2)

inductive Framing
  | none
  | length (n : Nat)
  | chunked

/-- Body framing as hyper decides it for a request (proto/h1/role.rs). -/
def framing (http10 : Bool) (hs : List (Bytes × Bytes)) : Option Framing :=
  let te := headerValues bTransferEncoding hs
  if !te.isEmpty then
    if http10 then Option.none else
    let codings := (te.flatMap (splitOnByte 44)).map fun c => (trimOws c).map lower
    match codings.getLast? with
    | some last => if last == bChunked then some .chunked else Option.none
    | Option.none => Option.none
  else
    let cl := (headerValues bContentLength hs).flatMap fun v => (splitOnByte 44 v).map trimOws
    match cl with
    | [] => some .none
    | v :: rest =>
      match natOfDigits v with
      | Option.none => Option.none
      | some n => if rest.all (fun w => natOfDigits w == some n) then some (.length n) else Option.none

/-- Chunked body; returns what follows it. -/
def parseChunked (lim : Limits) : Nat → Bytes → Nat → Parse Bytes
  | 0, _, _ => .invalid
  | fuel + 1, bs, total =>
    match takeLine bs with
    | none => .incomplete
    | some (line, rest) =>
      let sizeTxt := trimOws (line.takeWhile (· != 59))
      match natOfHex sizeTxt with
      | Option.none => .invalid
      | some 0 =>
        -- trailer section: header lines up to the empty line
        match parseHeaders lim (lim.maxHeaders + 2) rest [] with
        | .ok (_, rest') => .ok rest'
        | .incomplete => .incomplete
        | .invalid => .invalid
      | some n =>
        if total + n > lim.maxBody then .invalid
        else if rest.length < n + 2 then .incomplete
        else
          match rest.drop n with
          | 13 :: 10 :: rest' => parseChunked lim fuel rest' (total + n)
          | _ => .invalid

/-- One request at the front of `bs`; returns what follows it. -/
def parseOne (lim : Limits) (bs : Bytes) : Parse Bytes :=
  let bs := skipEmptyLines bs.length bs
  match takeLine bs with
  | none => if bs.length > lim.maxHead then .invalid else .incomplete
  | some (line, rest) =>
    if !validRequestLine lim line then .invalid else
    let http10 := (splitOnByte 32 line).getLast? == some bHttp10
    match parseHeaders lim (lim.maxHeaders + 2) rest [] with
    | .incomplete => if bs.length > lim.maxHead then .invalid else .incomplete
    | .invalid => .invalid
    | .ok (hs, body) =>
      if bs.length - body.length > lim.maxHead then .invalid else
      match framing http10 hs with
      | Option.none => .invalid
      | some .none => .ok body
      | some (.length n) =>
        if n > lim.maxBody then .invalid
        else if body.length < n then .incomplete
        else .ok (body.drop n)
      | some .chunked => parseChunked lim (body.length + 1) body 0

/-- `(k, leftover)`: `k` complete well-formed requests at the front, and whether
anything (other than empty lines) is left after them. -/
def countRequests (lim : Limits) : Nat → Bytes → Nat → Nat × Bool
  | 0, _, k => (k, true)
  | fuel + 1, bs, k =>
    if (skipEmptyLines bs.length bs).isEmpty then (k, false)
    else match parseOne lim bs with
      | .ok rest => if rest.length < bs.length then countRequests lim fuel rest (k + 1) else (k, true)
      | _ => (k, true)

/-- The byte string is a sequence of one or more complete well-formed requests. -/
def wellFormedRequest (lim : Limits) (bs : Bytes) : Bool :=
  match countRequests lim (bs.length + 1) bs 0 with
  | (k, leftover) => k ≥ 1 && !leftover

/-- One valid HTTP/1.1 response at the front of `bs` (the request was not HEAD);
returns its status and what follows.  Strict: CRLF line ends only. -/
def takeCrlfLine (bs : Bytes) : Option (Bytes × Bytes) :=
  match takeLineAux bs [] with
  | some (line, rest) =>
    -- the line must have ended with CR LF
    if bs.length ≥ line.length + rest.length + 2 then some (line, rest) else none
  | none => none

def parseRespHeaders : Nat → Bytes → List (Bytes × Bytes) → Option (List (Bytes × Bytes) × Bytes)
  | 0, _, _ => none
  | fuel + 1, bs, acc =>
    match takeCrlfLine bs with
    | none => none
    | some (line, rest) =>
      if line.isEmpty then some (acc.reverse, rest)
      else match parseHeaderLine line with
        | none => none
        | some h => parseRespHeaders fuel rest (h :: acc)

def parseRespChunks : Nat → Bytes → Option Bytes
  | 0, _ => none
  | fuel + 1, bs =>
    match takeCrlfLine bs with
    | none => none
    | some (line, rest) =>
      match natOfHex (trimOws (line.takeWhile (· != 59))) with
      | none => none
      | some 0 =>
        match rest with
        | 13 :: 10 :: rest' => some rest'
        | _ => none
      | some n =>
        if rest.length < n + 2 then none else
        match rest.drop n with
        | 13 :: 10 :: rest' => parseRespChunks fuel rest'
        | _ => none

def validResponse (bs : Bytes) : Option (Nat × Bytes) :=
  match takeCrlfLine bs with
  | none => none
  | some (line, rest) =>
    -- HTTP/1.1 SP 3DIGIT SP reason
    let ver := line.take 8
    let code := (line.drop 9).take 3
    if !(ver == bHttp11 || ver == bHttp10) then none
    else if line.drop 8 |>.head? |> (· != some 32) then none
    else if !((line.drop 12).isEmpty || (line.drop 12).head? == some 32) then none
    else if !(line.drop 13).all isFieldByte then none
    else match natOfDigits code with
      | none => none
      | some st =>
        if code.length != 3 || st < 100 then none else
        match parseRespHeaders 1000 rest [] with
        | none => none
        | some (hs, body) =>
          if st / 100 == 1 || st == 204 || st == 304 then some (st, body)
          else
            let te := (headerValues bTransferEncoding hs).map fun v => v.map lower
            if te.any (fun v => v == bChunked) then
              (parseRespChunks (body.length + 1) body).map fun r => (st, r)
            else match headerValues bContentLength hs with
              | v :: _ =>
                match natOfDigits v with
                | some n => if body.length < n then none else some (st, body.drop n)
                | none => none
              | [] => some (st, [])   -- delimited by the end of the connection

/-- Everything received on a connection is a sequence of valid responses;
returns their statuses. -/
def validResponses : Nat → Bytes → List Nat → Option (List Nat)
  | 0, _, _ => none
  | fuel + 1, bs, acc =>
    if bs.isEmpty then some acc.reverse
    else match validResponse bs with
      | none => none
      | some (st, rest) =>
        if rest.length < bs.length then validResponses fuel rest (st :: acc) else none


/-! ## HTTP/2 connections

A client that starts with the HTTP/2 preface is served by hyper's HTTP/2 code (the
server builder detects the protocol).  What the server sends on such a connection is a
sequence of frames (RFC 9113 section 4.1: 24-bit payload length, type, flags, reserved bit
+ 31-bit stream id, payload), the first of which is its SETTINGS frame (section 3.4). -/

/-- The frames in `bs` as (type, first payload byte or 256); `none` if `bs` is not a
sequence of complete frames. -/
def h2Frames : Nat → Bytes → List (Nat × Nat) → Option (List (Nat × Nat))
  | 0, _, _ => none
  | fuel + 1, bs, acc =>
    match bs with
    | [] => some acc.reverse
    | l0 :: l1 :: l2 :: ty :: _fl :: s0 :: _s1 :: _s2 :: _s3 :: rest =>
      let len := l0.toNat * 65536 + l1.toNat * 256 + l2.toNat
      if s0.toNat ≥ 128 then none
      else if rest.length < len then none
      else h2Frames fuel (rest.drop len) ((ty.toNat, if len > 0 then (rest.head?.map (·.toNat)).getD 256 else 256) :: acc)
    | _ => none

/-- What a server may send on an HTTP/2 connection: nothing, or its SETTINGS frame (type 4)
followed by complete frames. -/
def validH2 (recv : Bytes) : Option (List (Nat × Nat)) :=
  match h2Frames (recv.length + 1) recv [] with
  | some [] => some []
  | some ((4, b) :: fs) => some ((4, b) :: fs)
  | _ => none

/-- The client connection preface (RFC 9113 section 3.4). -/
def h2Preface : Bytes :=
  [80, 82, 73, 32, 42, 32, 72, 84, 84, 80, 47, 50, 46, 48, 13, 10, 13, 10, 83, 77, 13, 10, 13, 10]

end Dropshot.Isolation
