/-
Model of the `percent-encoding` crate's `percent_decode` (2.3.1,
`PercentDecode::next` / `after_percent_sign`): a `%` followed by two
hexadecimal digits (either case) is replaced by the byte they spell; a `%`
not followed by two hex digits is kept literally and decoding resumes at the
very next byte.  One pass, no second decoding.

Byte representation (shared by Percent / Utf8 / Path): `List Nat`, each
element meant to be < 256 (the same convention as `Base64.lean`).  The decoder
never produces a value ≥ 256 from in-range input.

The crate itself is *modelled, not verified*: correspondence streams `f` and
`l` of C03 compare this file with the crate through `input_path_to_segments`.
-/
namespace Dropshot

abbrev Bytes := List Nat

namespace Percent

/-- `char::from(b).to_digit(16)` on a byte. -/
def hexVal (c : Nat) : Option Nat :=
  if 48 ≤ c ∧ c ≤ 57 then some (c - 48)          -- '0'..'9'
  else if 97 ≤ c ∧ c ≤ 102 then some (c - 97 + 10) -- 'a'..'f'
  else if 65 ≤ c ∧ c ≤ 70 then some (c - 65 + 10)  -- 'A'..'F'
  else none

/-- The hex digit for a nibble, upper or lower case. -/
def hexDigit (upper : Bool) (n : Nat) : Nat :=
  if n < 10 then 48 + n else if upper then 65 + (n - 10) else 97 + (n - 10)

/-- `'%'` -/
def pct : Nat := 37

/-- `percent_decode(input).collect::<Vec<u8>>()`. -/
def pctDecode : Bytes → Bytes
  | [] => []
  | b :: rest =>
    if b = 37 then
      match rest with
      | h :: l :: rest' =>
        match hexVal h, hexVal l with
        | some x, some y => (16 * x + y) :: pctDecode rest'
        | _, _ => 37 :: pctDecode (h :: l :: rest')
      | [c] => [37, c]
      | [] => [37]
    else b :: pctDecode rest

/-- Percent-encode every byte (`%XX`, upper-case hex as the crate's encoder
prints it). -/
def pctEncodeAll (bs : Bytes) : Bytes :=
  bs.flatMap fun b => [37, hexDigit true (b / 16), hexDigit true (b % 16)]

/-- One byte of a *spelling*: written raw, or as `%XY` with an independent
choice of case for each of the two hex digits. -/
inductive PctByte where
  | raw (b : Nat)
  | enc (b : Nat) (upHi upLo : Bool)
deriving DecidableEq, Repr

namespace PctByte
/-- The byte that is meant. -/
def byte : PctByte → Nat
  | .raw b => b
  | .enc b _ _ => b
/-- The bytes on the wire. -/
def wire : PctByte → Bytes
  | .raw b => [b]
  | .enc b hi lo => [37, hexDigit hi (b / 16), hexDigit lo (b % 16)]
/-- A spelling is admissible when encoded bytes are bytes and no `%` is
written raw (a raw `%` may or may not start an escape, depending on what
follows; it has to be written `%25`). -/
def ok : PctByte → Bool
  | .raw b => b != 37
  | .enc b _ _ => b < 256
end PctByte

/-- The wire form of a spelling. -/
def spell (cs : List PctByte) : Bytes := cs.flatMap PctByte.wire

/-- The bytes a spelling means. -/
def meant (cs : List PctByte) : Bytes := cs.map PctByte.byte

end Percent
end Dropshot
