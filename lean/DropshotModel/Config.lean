/-
`dropshot/src/config.rs`: `ConfigDropshot` as it is written out and read back
(serde, through the private `DeserializedConfigDropshot`, `#[serde(default)]`).
The socket address is kept as text: its `Display`/`FromStr` pair is trusted
(the harness draws addresses from a pool of valid ones), everything else -
which keys exist, their defaults, what is refused - is modelled on JSON values.

Reading a JSON object (serde's derived visitor over a self-describing format):
keys are taken in order; a known key seen twice is an error; an unknown key is
skipped; a missing key takes the value of `ConfigDropshot::default()`;
`request_body_max_bytes` (the name before 0.14) is refused whatever its value.
-/
import DropshotModel.Schema
import DropshotModel.Lifecycle

namespace Dropshot.Config
open Dropshot.Schema
open Dropshot.Lifecycle (Mode)

structure Cfg where
  bind : String
  maxBytes : Nat
  mode : Mode
  logHeaders : List String
deriving Repr, DecidableEq

/-- `ConfigDropshot::default()`. -/
def Cfg.default : Cfg :=
  { bind := "127.0.0.1:0", maxBytes := 1024, mode := .detached, logHeaders := [] }

/-- `#[serde(rename_all = "kebab-case")]` on `HandlerTaskMode`. -/
def modeName : Mode → String
  | .cancel => "cancel-on-disconnect"
  | .detached => "detached"

def modeOfName (s : String) : Option Mode :=
  if s = "cancel-on-disconnect" then some .cancel else if s = "detached" then some .detached else none

/-- `Serialize`: every member, in declaration order (the retired key is `skip_serializing`). -/
def serialize (c : Cfg) : J :=
  .obj [("bind_address", .str c.bind),
        ("default_request_body_max_bytes", .num c.maxBytes),
        ("default_handler_task_mode", .str (modeName c.mode)),
        ("log_headers", .arr (c.logHeaders.map .str))]

def usizeMax : Nat := 18446744073709551615

/-- a unit variant: its name as a string, or `{name: null}`. -/
def readMode : J → Option Mode
  | .str s => modeOfName s
  | .obj [(k, .null)] => modeOfName k
  | _ => none

def readStrings : List J → Option (List String)
  | [] => some []
  | .str s :: rest => (readStrings rest).map (s :: ·)
  | _ :: _ => none

/-- What has been read so far: `none` = key not seen yet. -/
structure Partial where
  bind : Option String := none
  maxBytes : Option Nat := none
  mode : Option Mode := none
  logHeaders : Option (List String) := none

/-- One key of the object.  `validAddr` stands for `SocketAddr::from_str`. -/
def readKey (validAddr : String → Bool) (p : Partial) (k : String) (v : J) : Option Partial :=
  if k = "bind_address" then
    match p.bind, v with
    | none, .str s => if validAddr s then some { p with bind := some s } else none
    | _, _ => none
  else if k = "default_request_body_max_bytes" then
    match p.maxBytes, v with
    | none, .num n => if 0 ≤ n ∧ n.toNat ≤ usizeMax then some { p with maxBytes := some n.toNat } else none
    | _, _ => none
  else if k = "default_handler_task_mode" then
    match p.mode, readMode v with
    | none, some m => some { p with mode := some m }
    | _, _ => none
  else if k = "log_headers" then
    match p.logHeaders, v with
    | none, .arr xs => (readStrings xs).map fun hs => { p with logHeaders := some hs }
    | _, _ => none
  else if k = "request_body_max_bytes" then none
  else some p

def readKeys (validAddr : String → Bool) : Partial → List (String × J) → Option Partial
  | p, [] => some p
  | p, (k, v) :: rest =>
    match readKey validAddr p k v with
    | none => none
    | some p' => readKeys validAddr p' rest

/-- `Deserialize` for `ConfigDropshot` from a JSON object (`none` = refused). -/
def parse (validAddr : String → Bool) : J → Option Cfg
  | .obj kvs =>
    (readKeys validAddr {} kvs).map fun p =>
      { bind := p.bind.getD Cfg.default.bind,
        maxBytes := p.maxBytes.getD Cfg.default.maxBytes,
        mode := p.mode.getD Cfg.default.mode,
        logHeaders := p.logHeaders.getD Cfg.default.logHeaders }
  | _ => none

end Dropshot.Config
