/-
Model of dropshot's error contract:

* `error_status_code.rs`: `ErrorStatusCode` / `ClientErrorStatusCode`
  (`from_u16`, `from_status`, `as_client_error`, `From<Client…>`, the named
  constants), on top of `http::StatusCode::from_u16`, `is_client_error`,
  `is_server_error`, `canonical_reason`;
* `error.rs`: `HttpError`, its public constructors, `with_header`/`add_header`,
  `into_response` (status, header multimap, pretty-printed JSON body);
* `handler.rs` `HandlerError::into_response` and `server.rs`
  `http_request_handle` / `http_request_handle_wrap`: how the request id is
  stamped on success responses and on both kinds of error.

Strings are UTF-8 byte lists (`List UInt8`).  Header names are lower-case.
The model follows the code as it stands after two repairs found while
building this slice; the pre-repair behaviours are kept as `…AsIs` for the
regression witnesses in C13.lean: `into_response` used to *append*
`content-type` and `x-request-id` to the error's own headers (two values when
the error carried one of them), and `for_client_error_with_status` used to
panic on a status without a canonical reason.
-/
import DropshotModel.HeaderMap

namespace Dropshot.Error

abbrev Str := List UInt8

def strBytes (s : String) : Str := s.toUTF8.toList

/-! ### http::StatusCode -/

/-- `http::StatusCode::from_u16`: 100 ≤ n < 1000. -/
def statusFromU16 (n : Nat) : Option Nat :=
  if 100 ≤ n ∧ n < 1000 then some n else none

/-- `StatusCode::is_client_error`: `(400..500).contains`. -/
def isClientError (s : Nat) : Bool := decide (400 ≤ s) && decide (s < 500)

/-- `StatusCode::is_server_error`: `(500..600).contains`. -/
def isServerError (s : Nat) : Bool := decide (500 ≤ s) && decide (s < 600)

/-- `http::StatusCode::canonical_reason` restricted to 4xx/5xx (http 1.3.1). -/
def reasonStr : Nat → Option String
  | 400 => some "Bad Request" | 401 => some "Unauthorized" | 402 => some "Payment Required"
  | 403 => some "Forbidden" | 404 => some "Not Found" | 405 => some "Method Not Allowed"
  | 406 => some "Not Acceptable" | 407 => some "Proxy Authentication Required"
  | 408 => some "Request Timeout" | 409 => some "Conflict" | 410 => some "Gone"
  | 411 => some "Length Required" | 412 => some "Precondition Failed"
  | 413 => some "Payload Too Large" | 414 => some "URI Too Long"
  | 415 => some "Unsupported Media Type" | 416 => some "Range Not Satisfiable"
  | 417 => some "Expectation Failed" | 418 => some "I'm a teapot"
  | 421 => some "Misdirected Request" | 422 => some "Unprocessable Entity" | 423 => some "Locked"
  | 424 => some "Failed Dependency" | 425 => some "Too Early" | 426 => some "Upgrade Required"
  | 428 => some "Precondition Required" | 429 => some "Too Many Requests"
  | 431 => some "Request Header Fields Too Large" | 451 => some "Unavailable For Legal Reasons"
  | 500 => some "Internal Server Error" | 501 => some "Not Implemented" | 502 => some "Bad Gateway"
  | 503 => some "Service Unavailable" | 504 => some "Gateway Timeout"
  | 505 => some "HTTP Version Not Supported" | 506 => some "Variant Also Negotiates"
  | 507 => some "Insufficient Storage" | 508 => some "Loop Detected" | 510 => some "Not Extended"
  | 511 => some "Network Authentication Required"
  | _ => none

def canonicalReason (s : Nat) : Option Str := (reasonStr s).map strBytes

/-! ### The two refined status types -/

/-- `ErrorStatusCode(http::StatusCode)`: the field is private in Rust; the only
ways to obtain one are listed in `ErrorStatus.Built`. -/
structure ErrorStatus where
  code : Nat
deriving DecidableEq, Repr

/-- `ClientErrorStatusCode(http::StatusCode)`. -/
structure ClientErrorStatus where
  code : Nat
deriving DecidableEq, Repr

inductive ConvErr where
  /-- `http::status::InvalidStatusCode` (not in 100..1000) -/
  | invalidStatus
  /-- `NotAnError` / `NotAClientError` -/
  | notInClass
deriving DecidableEq, Repr

/-- `ErrorStatusCode::from_status`. -/
def ErrorStatus.fromStatus (s : Nat) : Except ConvErr ErrorStatus :=
  if isClientError s || isServerError s then .ok ⟨s⟩ else .error .notInClass

/-- `ErrorStatusCode::from_u16` (also `TryFrom<u16>`). -/
def ErrorStatus.fromU16 (n : Nat) : Except ConvErr ErrorStatus :=
  match statusFromU16 n with
  | none => .error .invalidStatus
  | some s => ErrorStatus.fromStatus s

/-- `ClientErrorStatusCode::from_status`. -/
def ClientErrorStatus.fromStatus (s : Nat) : Except ConvErr ClientErrorStatus :=
  if isClientError s then .ok ⟨s⟩ else .error .notInClass

/-- `ClientErrorStatusCode::from_u16`. -/
def ClientErrorStatus.fromU16 (n : Nat) : Except ConvErr ClientErrorStatus :=
  match statusFromU16 n with
  | none => .error .invalidStatus
  | some s => ClientErrorStatus.fromStatus s

/-- `ErrorStatusCode::as_client_error` / `TryFrom<ErrorStatusCode>`. -/
def ErrorStatus.asClient (e : ErrorStatus) : Except ConvErr ClientErrorStatus :=
  if isClientError e.code then .ok ⟨e.code⟩ else .error .notInClass

/-- `From<ClientErrorStatusCode> for ErrorStatusCode`. -/
def ClientErrorStatus.toError (c : ClientErrorStatus) : ErrorStatus := ⟨c.code⟩

/-- The named constants of `ClientErrorStatusCode`. -/
def clientConstants : List Nat :=
  [400, 401, 402, 403, 404, 405, 406, 407, 408, 409, 410, 411, 412, 413, 414, 415, 416, 417, 418,
   421, 422, 423, 424, 426, 428, 429, 431, 451]

/-- The named constants of `ErrorStatusCode`. -/
def errorConstants : List Nat :=
  clientConstants ++ [500, 501, 502, 503, 504, 505, 506, 507, 508, 510, 511]

/-- Every public way of making a `ClientErrorStatusCode`. -/
inductive ClientErrorStatus.Built : ClientErrorStatus → Prop
  | const (n : Nat) : n ∈ clientConstants → Built ⟨n⟩
  | fromStatus (s : Nat) (c : ClientErrorStatus) : ClientErrorStatus.fromStatus s = .ok c → Built c
  | fromU16 (n : Nat) (c : ClientErrorStatus) : ClientErrorStatus.fromU16 n = .ok c → Built c
  | asClient (e : ErrorStatus) (c : ClientErrorStatus) : e.asClient = .ok c → Built c

/-- Every public way of making an `ErrorStatusCode`. -/
inductive ErrorStatus.Built : ErrorStatus → Prop
  | const (n : Nat) : n ∈ errorConstants → Built ⟨n⟩
  | fromStatus (s : Nat) (e : ErrorStatus) : ErrorStatus.fromStatus s = .ok e → Built e
  | fromU16 (n : Nat) (e : ErrorStatus) : ErrorStatus.fromU16 n = .ok e → Built e
  | ofClient (c : ClientErrorStatus) : c.Built → Built c.toError

/-! ### HttpError -/

structure HttpError where
  status : ErrorStatus
  errorCode : Option Str
  external : Str
  internal : Str
  /-- `headers: Option<Box<HeaderMap>>`; `None` is the empty map -/
  headers : List (Str × Str)
deriving DecidableEq, Repr

/-- `HttpError::for_client_error`. -/
def forClientError (code : Option Str) (st : ClientErrorStatus) (msg : Str) : HttpError :=
  { status := st.toError, errorCode := code, external := msg, internal := msg, headers := [] }

/-- `HttpError::for_internal_error`: `canonical_reason().unwrap()` of the constant 500. -/
def forInternalError (internal : Str) : HttpError :=
  { status := ⟨500⟩, errorCode := some (strBytes "Internal"),
    external := (canonicalReason 500).getD [], internal := internal, headers := [] }

/-- `HttpError::for_unavail`. -/
def forUnavail (code : Option Str) (internal : Str) : HttpError :=
  { status := ⟨503⟩, errorCode := code,
    external := (canonicalReason 503).getD [], internal := internal, headers := [] }

/-- `HttpError::for_bad_request`. -/
def forBadRequest (code : Option Str) (msg : Str) : HttpError :=
  forClientError code ⟨400⟩ msg

/-- `HttpError::for_client_error_with_status`:
`canonical_reason().unwrap_or("Client Error")`. -/
def forClientErrorWithStatus (code : Option Str) (st : ClientErrorStatus) : HttpError :=
  forClientError code st ((canonicalReason st.code).getD (strBytes "Client Error"))

/-- Before the repair: `canonical_reason().unwrap()` panicked (`none`) when the
status has no canonical reason. -/
def forClientErrorWithStatusAsIs (code : Option Str) (st : ClientErrorStatus) : Option HttpError :=
  match canonicalReason st.code with
  | none => none
  | some msg => some (forClientError code st msg)

/-- `HttpError::for_not_found`. -/
def forNotFound (code : Option Str) (internal : Str) : HttpError :=
  { status := ⟨404⟩, errorCode := code,
    external := (canonicalReason 404).getD [], internal := internal, headers := [] }

/-- `HeaderName::try_from` normalises ASCII upper case to lower case. -/
def lowerName (n : Str) : Str :=
  n.map fun b => if 65 ≤ b ∧ b ≤ 90 then b + 32 else b

/-- `HttpError::with_header` / `add_header` with a valid name and value
(`try_append`). -/
def withHeader (e : HttpError) (n v : Str) : HttpError :=
  { e with headers := HMap.append (lowerName n) v e.headers }

/-! ### Responses -/

structure Response where
  status : Nat
  headers : List (Str × Str)
  body : Str
deriving DecidableEq, Repr

/-- "content-type" -/
def hContentType : Str := [99, 111, 110, 116, 101, 110, 116, 45, 116, 121, 112, 101]
/-- "x-request-id" (`HEADER_REQUEST_ID`) -/
def hRequestId : Str := [120, 45, 114, 101, 113, 117, 101, 115, 116, 45, 105, 100]
def ctJson : Str := strBytes "application/json"

def hexDigit (n : Nat) : UInt8 :=
  if n < 10 then UInt8.ofNat (48 + n) else UInt8.ofNat (87 + n)

/-- serde_json's string escaping (`format_escaped_str_contents`): `"` `\` and
the C0 controls are escaped, everything else (DEL and non-ASCII included) is
copied. -/
def escByte (b : UInt8) : Str :=
  if b = 0x22 then [0x5c, 0x22]
  else if b = 0x5c then [0x5c, 0x5c]
  else if b = 0x08 then [0x5c, 0x62]
  else if b = 0x0c then [0x5c, 0x66]
  else if b = 0x0a then [0x5c, 0x6e]
  else if b = 0x0d then [0x5c, 0x72]
  else if b = 0x09 then [0x5c, 0x74]
  else if b < 0x20 then [0x5c, 0x75, 0x30, 0x30, hexDigit (b.toNat / 16), hexDigit (b.toNat % 16)]
  else [b]

def jsonString (s : Str) : Str := [0x22] ++ s.flatMap escByte ++ [0x22]

/-- `HttpErrorResponseBody`. -/
structure ErrBody where
  requestId : Str
  errorCode : Option Str
  message : Str
deriving DecidableEq, Repr

/-- `serde_json::to_string_pretty(&HttpErrorResponseBody{..})`: fields in
declaration order, `error_code` skipped when `None`, two-space indent. -/
def renderErrBody (b : ErrBody) : Str :=
  strBytes "{\n  \"request_id\": " ++ jsonString b.requestId ++
  (match b.errorCode with
   | none => []
   | some c => strBytes ",\n  \"error_code\": " ++ jsonString c) ++
  strBytes ",\n  \"message\": " ++ jsonString b.message ++ strBytes "\n}"

/-- The body fields `into_response` serialises. -/
def errBody (e : HttpError) (id : Str) : ErrBody :=
  { requestId := id, errorCode := e.errorCode, message := e.external }

/-- `HttpError::into_response(request_id)`: `content-type` and `x-request-id`
are removed from the error's headers (`HeaderMap::remove`), the builder's
header map is *replaced* by the result, then `content-type` and `x-request-id`
are added with `Builder::header` (= `try_append`). -/
def intoResponse (e : HttpError) (id : Str) : Response :=
  { status := e.status.code,
    headers := HMap.append hRequestId id (HMap.append hContentType ctJson
      (HMap.remove hRequestId (HMap.remove hContentType e.headers))),
    body := renderErrBody (errBody e id) }

/-- Before the repair: no `remove`, so an attached `x-request-id` stayed in
front of the real one. -/
def intoResponseAsIs (e : HttpError) (id : Str) : Response :=
  { status := e.status.code,
    headers := HMap.append hRequestId id (HMap.append hContentType ctJson e.headers),
    body := renderErrBody (errBody e id) }

/-- What `http_request_handle` hands to `http_request_handle_wrap`. -/
inductive Outcome where
  /-- the handler's (or `to_result`'s) success response -/
  | ok (rsp : Response)
  /-- `HandlerError::Handler`: a user error type already serialised by
  `HttpResponseContent::to_response`; `message` is its `Display` (log only) -/
  | handlerErr (message : Str) (rsp : Response)
  /-- `HandlerError::Dropshot`: an `HttpError` from the framework (404, 405,
  extractor 400, …) or from a handler whose error type is `HttpError` -/
  | dropshotErr (e : HttpError)
deriving Repr

/-- The request-id stamping of `http_request_handle` (success: `insert`) and
`HandlerError::into_response` (`Handler`: `insert`; `Dropshot`: `into_response`). -/
def wrap (o : Outcome) (id : Str) : Response :=
  match o with
  | .ok rsp => { rsp with headers := HMap.insert hRequestId id rsp.headers }
  | .handlerErr _ rsp => { rsp with headers := HMap.insert hRequestId id rsp.headers }
  | .dropshotErr e => intoResponse e id

/-- Does `needle` occur in `hay` as a contiguous block? (used by the driver's
leak check) -/
def occursIn (needle : Str) : Str → Bool
  | [] => needle.isEmpty
  | h :: t => needle.isPrefixOf (h :: t) || occursIn needle t

end Dropshot.Error
