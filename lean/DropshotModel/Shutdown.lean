/-
Shutdown model for C17: the lifecycle LTS (DropshotModel/Lifecycle.lean)
extended with the shutdown protocol of `dropshot/src/server.rs`:

* `HttpServer::close` (678-694) sends on the close channel (`CloseRequested`),
  drops its `app_state` (its waitgroup worker) and awaits the shared
  `join_future`;
* the accept loop (302-321) `select!`s on `accept()` and the close channel and
  `break`s on the signal (`AcceptStopped`): no connection is accepted later;
* `graceful.shutdown().await` (325): hyper-util signals every watched
  connection (312: `graceful.watch`) and waits until all connection tasks have
  finished — an idle keep-alive connection is closed at once, a connection with
  an in-flight request finishes it (the handler runs inside the connection task
  in cancel mode; in detached mode the task awaits the handler's oneshot) and
  writes the response before it ends;
* the listener (`http_acceptor`, moved into the task at 253) is dropped when
  that task's future completes (`Drained`), i.e. before the `JoinHandle`
  resolves and before the waitgroup is awaited: from then on connects are
  refused although detached handlers may still be running;
* `join_handle` (330-338) then awaits `handler_waitgroup.wait()` (336): every
  detached handler task holds a `waitgroup::Worker` (934, dropped at 959), so
  handlers whose client has left are waited for too;
* only then the shared future resolves (`JoinResolved res`); `close()` and every
  `wait_for_shutdown()` clone (673-675, `Shared`) get that same value
  (`WaiterReleased i res`).

`step m s e = none`: event not enabled.  Core Lean only, computable.
-/
import DropshotModel.Lifecycle

namespace Dropshot.Shutdown
open Dropshot.Lifecycle (Mode upd)

inductive Phase
  | serving
  | closeRequested
  | acceptStopped
  | drained
  | joined (res : Bool)
  deriving DecidableEq, Repr

/-- Event alphabet (DESIGN.md Appendix C): the lifecycle events plus shutdown. -/
inductive Event
  | lc (e : Lifecycle.Event)
  | closeRequested                       -- close() is about to be called
  | acceptStopped                        -- accept loop left (internal)
  | drained                              -- graceful.shutdown() returned, server task done, listener dropped (internal)
  | connClosed (c : Nat)                 -- a still-connected client saw the server close connection c
  | joinResolved (res : Bool)            -- shared join future resolved (internal)
  | waiterReleased (i : Nat) (res : Bool) -- close() (i = 0) / a wait_for_shutdown() future returned res
  | connectRefused                       -- connect() to the server's address failed
  | connectAccepted                      -- connect() to the server's address succeeded
  deriving DecidableEq, Repr

structure State where
  lc : Lifecycle.State
  phase : Phase
  /-- requests whose handler is running (started and not ended) -/
  active : List Nat
  /-- the server closed connection `c` -/
  closed : Nat → Bool
  /-- result handed to waiter `i` -/
  waiter : Nat → Option Bool

def init : State :=
  { lc := Lifecycle.init, phase := .serving, active := [], closed := fun _ => false,
    waiter := fun _ => none }

def Phase.isJoined : Phase → Bool
  | .joined _ => true
  | _ => false

/-- The listener has been dropped. -/
def Phase.listenerClosed : Phase → Bool
  | .drained => true
  | .joined _ => true
  | _ => false

/-- The client of the connection request `r` was sent on has left. -/
def clientGone (l : Lifecycle.State) (r : Nat) : Bool :=
  match (l.req r).conn with
  | some c => l.gone c
  | none => false

/-- `active` after a lifecycle event. -/
def activeAfter (e : Lifecycle.Event) (a : List Nat) : List Nat :=
  match e with
  | .start r => r :: a
  | .done r => a.filter (· != r)
  | .drop r => a.filter (· != r)
  | .panic r => a.filter (· != r)
  | _ => a

/-- No handler starts after the join resolved (every handler task holds a
waitgroup worker, created before the task is spawned).  After `drained` every
connection task has ended; a handler task spawned by a connection task that
ended because its client left may still be scheduled late (detached mode
only). -/
def startBlocked (m : Mode) (s : State) : Lifecycle.Event → Bool
  | .start r =>
    match s.phase with
    | .joined _ => true
    | .drained => !(m == .detached && clientGone s.lc r)
    | _ => false
  | _ => false

def step (m : Mode) (s : State) : Event → Option State
  | .lc e =>
    if startBlocked m s e then none else
    match Lifecycle.step m s.lc e with
    | none => none
    | some l => some { s with lc := l, active := activeAfter e s.active }
  | .closeRequested =>
    if s.phase = .serving then some { s with phase := .closeRequested } else none
  | .acceptStopped =>
    if s.phase = .closeRequested then some { s with phase := .acceptStopped } else none
  | .connClosed c =>
    -- the server closes a connection that has no request in flight, and (no idle
    -- timeout is configured) only because of shutdown or because a panic unwound it
    if s.closed c = false ∧ s.lc.gone c = false ∧ s.lc.busy c = none
        ∧ (s.phase ≠ .serving ∨ s.lc.dead c = true) then
      some { s with closed := upd s.closed c true }
    else none
  | .drained =>
    -- graceful.shutdown() (325) waited for every connection task.  A handler can
    -- outlive its connection task only in detached mode and only when the task
    -- ended because the client left (cancel mode: the handler runs inside the task)
    if s.phase = .acceptStopped ∧ s.active.all (fun r => m == .detached && clientGone s.lc r) then
      some { s with phase := .drained }
    else none
  | .joinResolved res =>
    -- handler_waitgroup.wait() (336) waited for every detached handler as well:
    -- no handler is running any more
    if s.phase = .drained ∧ s.active = [] then some { s with phase := .joined res } else none
  | .waiterReleased i res =>
    if s.phase = .joined res ∧ s.waiter i = none then
      some { s with waiter := upd s.waiter i (some res) }
    else none
  | .connectRefused =>
    -- the listener lives until the server task is finished
    if s.phase.listenerClosed then some s else none
  | .connectAccepted =>
    if s.phase.listenerClosed then none else some s

def run (m : Mode) (s : State) : List Event → Option State
  | [] => some s
  | e :: tr =>
    match step m s e with
    | some s' => run m s' tr
    | none => none

def accepts (m : Mode) (tr : List Event) : Bool := (run m init tr).isSome

def firstRejected (m : Mode) : State → List Event → Nat → Option (Nat × Event)
  | _, [], _ => none
  | s, e :: tr, i =>
    match step m s e with
    | some s' => firstRejected m s' tr (i + 1)
    | none => some (i, e)

/-- The lifecycle part of a trace. -/
def lcTrace : List Event → List Lifecycle.Event
  | [] => []
  | .lc e :: tr => e :: lcTrace tr
  | _ :: tr => lcTrace tr

/-- Terminal condition of a finished shutdown: the join has resolved and no
handler is running. -/
def settled (s : State) : Bool := s.phase.isJoined && s.active.isEmpty

def acceptsSettled (m : Mode) (tr : List Event) : Bool :=
  match run m init tr with
  | some s => settled s
  | none => false

def isWaiter : Event → Bool
  | .waiterReleased _ _ => true
  | _ => false

/-- The harness cannot observe the three internal events; they are placed at
the latest point that is consistent with the observation: `AcceptStopped` and
`Drained` immediately before the first refused connect or released waiter
(whichever comes first), `JoinResolved res` immediately before the first
released waiter, with that waiter's result. -/
def elaborate : List Event → List Event
  | [] => []
  | .connectRefused :: tr =>
    .acceptStopped :: .drained :: .connectRefused :: elaborateDrained tr
  | .waiterReleased i res :: tr =>
    .acceptStopped :: .drained :: .joinResolved res :: .waiterReleased i res :: tr
  | e :: tr => e :: elaborate tr
where
  elaborateDrained : List Event → List Event
  | [] => []
  | .waiterReleased i res :: tr => .joinResolved res :: .waiterReleased i res :: tr
  | e :: tr => e :: elaborateDrained tr


/-! ## The HTTPS arm of the accept loop

`HttpServerStarter::start` has two copies of the accept loop.  In the HTTPS
copy the acceptor (`HttpsAcceptor`, which owns the listener) is a local of the
`match` arm and is dropped when the loop `break`s on the close signal; in the
plain copy the listener lives until the server task has finished.  So over
HTTPS a connect is refused from `AcceptStopped` on - while in-flight requests
are still being served.  Everything else is the same protocol. -/

/-- The listener has been dropped (HTTPS arm). -/
def Phase.listenerClosedTls : Phase → Bool
  | .serving => false
  | .closeRequested => false
  | _ => true

def isConnectEvent : Event → Bool
  | .connectRefused => true
  | .connectAccepted => true
  | _ => false

def stepTls (m : Mode) (s : State) : Event → Option State
  | .connectRefused => if s.phase.listenerClosedTls then some s else none
  | .connectAccepted => if s.phase.listenerClosedTls then none else some s
  | e => step m s e

def runTls (m : Mode) (s : State) : List Event → Option State
  | [] => some s
  | e :: tr =>
    match stepTls m s e with
    | some s' => runTls m s' tr
    | none => none

def acceptsSettledTls (m : Mode) (tr : List Event) : Bool :=
  match runTls m init tr with
  | some s => settled s
  | none => false

def firstRejectedTls (m : Mode) : State → List Event → Nat → Option (Nat × Event)
  | _, [], _ => none
  | s, e :: tr, i =>
    match stepTls m s e with
    | some s' => firstRejectedTls m s' tr (i + 1)
    | none => some (i, e)

/-- Placement of the internal events for an HTTPS trace: `AcceptStopped` immediately
before the first refused connect or released waiter, `Drained` and `JoinResolved res`
immediately before the first released waiter. -/
def elaborateTls : List Event → List Event
  | [] => []
  | .connectRefused :: tr => .acceptStopped :: .connectRefused :: elaborateStopped tr
  | .waiterReleased i res :: tr =>
    .acceptStopped :: .drained :: .joinResolved res :: .waiterReleased i res :: tr
  | e :: tr => e :: elaborateTls tr
where
  elaborateStopped : List Event → List Event
  | [] => []
  | .waiterReleased i res :: tr => .drained :: .joinResolved res :: .waiterReleased i res :: tr
  | e :: tr => e :: elaborateStopped tr

end Dropshot.Shutdown
