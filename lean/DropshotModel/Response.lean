/-
Model of typed success responses (dropshot/src/handler.rs): the coded
response types (`HttpResponseOk` 200, `Created` 201, `Accepted` 202,
`Deleted` / `UpdatedNoContent` 204, `Found` 302, `SeeOther` 303,
`TemporaryRedirect` 307), `HttpCodedResponse::for_object`, the three content
adapters that matter here (JSON for `T: Serialize`, `Empty`),
`HttpResponseHeaders<T, H>::to_result` — `to_map(&structured_headers)` (a
`BTreeMap`, dropshot/src/to_map.rs: string fields only), `HeaderName::try_from`
/ `HeaderValue::try_from` per entry, `headers.insert`, then
`headers.extend(other_headers)` — and the redirect constructors
`http_response_found` / `see_other` / `temporary_redirect`, which validate the
location with `HeaderValue::from_str` before building anything.

Every failure inside `to_result` is `HttpError::for_internal_error` (500); the
message text is not modelled.  JSON serialisation is an input (`body`): the
theorems in C12.lean take the codec as a parameter with a stated round-trip
hypothesis.
-/
import DropshotModel.HeaderMap
import DropshotModel.Error

namespace Dropshot.Response
open Dropshot.Error

inductive Kind where
  | ok | created | accepted | deleted | updatedNoContent | found | seeOther | temporaryRedirect
deriving DecidableEq, Repr

/-- `HttpCodedResponse::STATUS_CODE`. -/
def Kind.status : Kind → Nat
  | .ok => 200 | .created => 201 | .accepted => 202
  | .deleted => 204 | .updatedNoContent => 204
  | .found => 302 | .seeOther => 303 | .temporaryRedirect => 307

/-- `type Body = T` (JSON) as opposed to `type Body = Empty`. -/
def Kind.hasBody : Kind → Bool
  | .ok | .created | .accepted => true
  | _ => false

def Kind.isRedirect : Kind → Bool
  | .found | .seeOther | .temporaryRedirect => true
  | _ => false

/-- `HeaderValue::from_bytes` / `from_str`: HTAB, or 32..=255 except DEL. -/
def validValueByte (b : UInt8) : Bool := b == 9 || (32 ≤ b && b != 127)

def validHeaderValue (v : Str) : Bool := v.all validValueByte

/-- `HeaderName::from_bytes`: a non-empty token (`tchar`s; upper case is
accepted and lower-cased). -/
def validNameByte (b : UInt8) : Bool :=
  (48 ≤ b && b ≤ 57) || (65 ≤ b && b ≤ 90) || (97 ≤ b && b ≤ 122) ||
  [33, 35, 36, 37, 38, 39, 42, 43, 45, 46, 94, 95, 96, 124, 126].contains b

def validHeaderName (n : Str) : Bool := !n.isEmpty && n.all validNameByte

/-- Any failure inside `to_result` / the redirect constructors:
`HttpError::for_internal_error(<detail>)`; the detail goes to the log only. -/
def internalError : HttpError := forInternalError []

/-- `T::for_object(body)` = `body.to_response(Response::builder().status(STATUS_CODE))`.
`body`: the `serde_json::to_string` of the value, `none` if serialisation failed
(ignored by the `Empty` kinds). -/
def base (k : Kind) (body : Option Str) : Except HttpError Response :=
  if k.hasBody then
    match body with
    | none => .error internalError
    | some b => .ok { status := k.status, headers := [(hContentType, ctJson)], body := b }
  else
    .ok { status := k.status, headers := [], body := [] }

def bytesLt : List UInt8 → List UInt8 → Bool
  | [], [] => false
  | [], _ :: _ => true
  | _ :: _, [] => false
  | a :: as, b :: bs => a < b || (a == b && bytesLt as bs)

/-- `BTreeMap<String, String>::insert`: sorted by key (byte order), an equal
key is overwritten. -/
def btInsert (k v : Str) : List (Str × Str) → List (Str × Str)
  | [] => [(k, v)]
  | (k', v') :: rest =>
    if k = k' then (k, v) :: rest
    else if bytesLt k k' then (k, v) :: (k', v') :: rest
    else (k', v') :: btInsert k v rest

/-- `to_map(&structured_headers)`: fields in declaration order; a field whose
value is not a string (`none`) makes the whole call fail. -/
def toMapAux (acc : List (Str × Str)) : List (Str × Option Str) → Option (List (Str × Str))
  | [] => some acc
  | (_, none) :: _ => none
  | (k, some v) :: rest => toMapAux (btInsert k v acc) rest

def toMap (fields : List (Str × Option Str)) : Option (List (Str × Str)) := toMapAux [] fields

/-- The `for (key, value) in header_map` loop: both conversions must succeed,
then `headers.insert` (replace). -/
def applyDeclared (hs : List (Str × Str)) : List (Str × Str) → Except HttpError (List (Str × Str))
  | [] => .ok hs
  | (k, v) :: rest =>
    if validHeaderName k && validHeaderValue v then
      applyDeclared (HMap.insert (lowerName k) v hs) rest
    else .error internalError

/-- A typed response value as the handler returns it. -/
structure Typed where
  kind : Kind
  /-- serialised JSON body (`none`: `serde_json::to_string` failed) -/
  body : Option Str
  /-- the header struct `H`: serde field names with their values; `none` = a
  field that is not a string -/
  declared : List (Str × Option Str)
  /-- `other_headers` (`headers_mut()`): names already lower-case, values valid -/
  explicit : List (Str × Str)
deriving Repr

/-- `HttpResponseHeaders<T, H>::to_result`. -/
def toResult (t : Typed) : Except HttpError Response :=
  match base t.kind t.body with
  | .error e => .error e
  | .ok r =>
    match toMap t.declared with
    | none => .error internalError
    | some dm =>
      match applyDeclared r.headers dm with
      | .error e => .error e
      | .ok hs => .ok { r with headers := HMap.extend hs t.explicit }

/-- "location" — the serde name of `RedirectHeaders::location`. -/
def hLocation : Str := [108, 111, 99, 97, 116, 105, 111, 110]

/-- `http_response_found` / `_see_other` / `_temporary_redirect`: the location
is validated first; nothing is built from an illegal one. -/
def redirect (k : Kind) (loc : Str) : Except HttpError Typed :=
  if validHeaderValue loc then
    .ok { kind := k, body := none, declared := [(hLocation, some loc)], explicit := [] }
  else .error internalError

/-- One operation on a `HeaderMap` (for the `hm` correspondence stream). -/
inductive Op where
  | append (n v : Str)
  | insert (n v : Str)
  | remove (n : Str)
deriving Repr

def applyOp (m : List (Str × Str)) : Op → List (Str × Str)
  | .append n v => HMap.append (lowerName n) v m
  | .insert n v => HMap.insert (lowerName n) v m
  | .remove n => HMap.remove (lowerName n) m

end Dropshot.Response
