/-
Model of Rust's `core::str::from_utf8` acceptance (the Unicode Standard's
Table 3-7 "Well-Formed UTF-8 Byte Sequences"): shortest form only (no
overlongs), no surrogates U+D800..U+DFFF, nothing above U+10FFFF.

Bytes are `List Nat` with values < 256 (a value ≥ 256 is never accepted);
code points are `Nat`s.
-/
import DropshotModel.Percent

namespace Dropshot.Utf8

/-- Continuation byte `80..BF`. -/
def isCont (b : Nat) : Bool := decide (128 ≤ b ∧ b ≤ 191)

/-- `b` lies in `lo..=hi`. -/
def inRange (lo hi b : Nat) : Bool := decide (lo ≤ b ∧ b ≤ hi)

/-- `str::from_utf8(bs).is_ok()`. -/
def utf8Valid : Bytes → Bool
  | [] => true
  | b0 :: rest =>
    if b0 < 128 then utf8Valid rest
    else if 194 ≤ b0 ∧ b0 ≤ 223 then            -- C2..DF
      match rest with
      | b1 :: r => isCont b1 && utf8Valid r
      | _ => false
    else if 224 ≤ b0 ∧ b0 ≤ 239 then            -- E0..EF
      match rest with
      | b1 :: b2 :: r =>
        -- E0: A0..BF (no overlong); ED: 80..9F (no surrogates); else 80..BF
        inRange (if b0 = 224 then 160 else 128) (if b0 = 237 then 159 else 191) b1
          && isCont b2 && utf8Valid r
      | _ => false
    else if 240 ≤ b0 ∧ b0 ≤ 244 then            -- F0..F4
      match rest with
      | b1 :: b2 :: b3 :: r =>
        -- F0: 90..BF (no overlong); F4: 80..8F (≤ U+10FFFF); else 80..BF
        inRange (if b0 = 240 then 144 else 128) (if b0 = 244 then 143 else 191) b1
          && isCont b2 && isCont b3 && utf8Valid r
      | _ => false
    else false                                   -- 80..C1, F5..FF, ≥ 256

/-- A Unicode scalar value (what a Rust `char` can hold). -/
def isScalar (c : Nat) : Bool := decide (c < 55296 ∨ (57344 ≤ c ∧ c < 1114112))

/-- `char::encode_utf8`. -/
def utf8Encode (c : Nat) : Bytes :=
  if c < 128 then [c]
  else if c < 2048 then [192 + c / 64, 128 + c % 64]
  else if c < 65536 then [224 + c / 4096, 128 + c / 64 % 64, 128 + c % 64]
  else [240 + c / 262144, 128 + c / 4096 % 64, 128 + c / 64 % 64, 128 + c % 64]

/-- The UTF-8 encoding of a string of scalar values. -/
def utf8EncodeAll (cs : List Nat) : Bytes := cs.flatMap utf8Encode

/-- Decode a well-formed byte string to its scalar values (inverse of
`utf8EncodeAll`); `none` iff `utf8Valid` is false. -/
def utf8Decode : Bytes → Option (List Nat)
  | [] => some []
  | b0 :: rest =>
    if b0 < 128 then (utf8Decode rest).map (b0 :: ·)
    else if 194 ≤ b0 ∧ b0 ≤ 223 then
      match rest with
      | b1 :: r =>
        if isCont b1 then (utf8Decode r).map (((b0 - 192) * 64 + (b1 - 128)) :: ·) else none
      | _ => none
    else if 224 ≤ b0 ∧ b0 ≤ 239 then
      match rest with
      | b1 :: b2 :: r =>
        if inRange (if b0 = 224 then 160 else 128) (if b0 = 237 then 159 else 191) b1 && isCont b2 then
          (utf8Decode r).map (((b0 - 224) * 4096 + (b1 - 128) * 64 + (b2 - 128)) :: ·)
        else none
      | _ => none
    else if 240 ≤ b0 ∧ b0 ≤ 244 then
      match rest with
      | b1 :: b2 :: b3 :: r =>
        if inRange (if b0 = 240 then 144 else 128) (if b0 = 244 then 143 else 191) b1
            && isCont b2 && isCont b3 then
          (utf8Decode r).map
            (((b0 - 240) * 262144 + (b1 - 128) * 4096 + (b2 - 128) * 64 + (b3 - 128)) :: ·)
        else none
      | _ => none
    else none

end Dropshot.Utf8
