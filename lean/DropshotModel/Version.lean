/-
Model of `ApiEndpointVersions` (dropshot/src/api_description.rs): the four
range kinds, `matches`, `overlaps_with` and the `from_until` constructor,
arm for arm, generic in the version type; and of the header version policy
`ClientSpecifiesVersionInHeader` (dropshot/src/versioning.rs).
-/
import DropshotModel.SemVer

namespace Dropshot

inductive Range (V : Type) where
  | all
  | from (a : V)
  | fromUntil (a b : V)
  | until (b : V)
deriving DecidableEq, Repr

namespace Range
variable {V : Type} [LE V] [LT V] [DecidableLE V] [DecidableLT V] [DecidableEq V]

/-- `ApiEndpointVersions::from_until`: refuses a reversed pair. -/
def mkFromUntil (a b : V) : Option (Range V) :=
  if b < a then none else some (.fromUntil a b)

/-- `ApiEndpointVersions::matches` (a request without a version matches everything). -/
def «matches» : Range V → Option V → Bool
  | _, none => true
  | .all, some _ => true
  | .from a, some v => decide (a ≤ v)
  | .fromUntil a b, some v => decide (a ≤ v) && (decide (v < b) || (decide (v = b) && decide (a = b)))
  | .until b, some v => decide (v < b)

/-- `ApiEndpointVersions::overlaps_with`, arm for arm. -/
def overlaps : Range V → Range V → Bool
  | .all, _ => true
  | _, .all => true
  | .from _, .from _ => true
  | .until _, .until _ => true
  | .from a, .until b => («matches» (.until b) (some a))
  | .until b, .from a => («matches» (.until b) (some a))
  | .from a, .fromUntil a' b' => decide (a ≤ a') || «matches» (.fromUntil a' b') (some a)
  | .fromUntil a' b', .from a => decide (a ≤ a') || «matches» (.fromUntil a' b') (some a)
  | .until b, .fromUntil a' _ => «matches» (.until b) (some a')
  | .fromUntil a' _, .until b => «matches» (.until b) (some a')
  | .fromUntil a1 b1, .fromUntil a2 b2 =>
      «matches» (.fromUntil a1 b1) (some a2) || «matches» (.fromUntil a2 b2) (some a1)

/-- `overlaps_with` as it stood before the repair of defect D2
(`earliest < until` in the two from/from-until arms); kept for the regression
witness `overlapsAsIs_fails`. -/
def overlapsAsIs : Range V → Range V → Bool
  | .from a, .fromUntil _ b' => decide (a < b')
  | .fromUntil _ b', .from a => decide (a < b')
  | r, s => overlaps r s

/-- Specification: what the documentation says each range contains. -/
def Mem (v : V) : Range V → Prop
  | .all => True
  | .from a => a ≤ v
  | .fromUntil a b => (a ≤ v ∧ v < b) ∨ (a = b ∧ v = a)
  | .until b => v < b

instance (v : V) (r : Range V) : Decidable (Mem v r) := by
  cases r <;> simp only [Mem] <;> infer_instance

/-- Well-formed: what `from_until` guarantees. -/
def WF : Range V → Prop
  | .fromUntil a b => a ≤ b
  | _ => True

instance (r : Range V) : Decidable (WF r) := by
  cases r <;> simp only [WF] <;> infer_instance

def isAll : Range V → Bool
  | .all => true
  | _ => false

end Range

/-! ### Header version policy -/

/-- `http::HeaderValue::to_str`: succeeds iff every byte is visible ASCII or HTAB. -/
def headerToStr (bs : List UInt8) : Option (List Char) :=
  if bs.all (fun b => (32 ≤ b && b < 127) || b == 9) then
    some (bs.map fun b => Char.ofNat b.toNat)
  else none

inductive VersionErr where
  | missing | notAscii | unparsable | tooNew
deriving DecidableEq, Repr

/-- `ClientSpecifiesVersionInHeader::request_extract_version`; `hdr` is the
first value of the configured header, if any.  Every error is a 400. -/
def extractVersion (hdr : Option (List UInt8)) (max : SemVer) : Except VersionErr SemVer :=
  match hdr with
  | none => .error .missing
  | some bs =>
    match headerToStr bs with
    | none => .error .notAscii
    | some cs =>
      match SemVer.parseChars cs with
      | none => .error .unparsable
      | some v => if v ≤ max then .ok v else .error .tooNew

end Dropshot

namespace Dropshot.Range
variable {V W : Type}

/-- Relabel the versions of a range. -/
def map (f : V → W) : Range V → Range W
  | .all => .all
  | .from a => .from (f a)
  | .fromUntil a b => .fromUntil (f a) (f b)
  | .until b => .until (f b)

/-- The versions a range mentions. -/
def endpoints : Range V → List V
  | .all => []
  | .from a => [a]
  | .fromUntil a b => [a, b]
  | .until b => [b]

end Dropshot.Range
