/-
`HttpRouter::lookup_route` as a whole: the request path (bytes) goes through
`input_path_to_segments` (`Path.inputSegments`: split on '/', drop empty
segments, percent-decode each segment once, refuse dot segments and invalid
UTF-8 with 400) and the resulting segments through the trie walk
(`Node.lookup`).  `conv` turns a decoded segment into the string the router
compares with literals and binds to variables (the driver instantiates it with
UTF-8 decoding, which cannot fail on a segment `inputSegments` let through).
-/
import DropshotModel.Router
import DropshotModel.Path

namespace Dropshot

inductive RouteErr where
  | badRequest
  | notFound
  | methodNotAllowed (allow : List String)
deriving Repr, DecidableEq

variable {V : Type} [LE V] [LT V] [DecidableLE V] [DecidableLT V] [DecidableEq V]

def lookupRoute (conv : Bytes → String) (t : Node V) (m : String) (p : Bytes) (v : Option V) :
    Except RouteErr (Endpoint V × Vars) :=
  match Path.inputSegments p with
  | .error _ => .error .badRequest
  | .ok ss =>
    match t.lookup m (ss.map conv) v with
    | .ok r => .ok r
    | .error .notFound => .error .notFound
    | .error (.methodNotAllowed a) => .error (.methodNotAllowed a)

end Dropshot
