/-
SHA-1 exactly as in RFC 3174 / FIPS 180-4, over `Nat`.

Bytes are `Nat`s < 256, 32-bit words are `Nat`s kept below 2^32 by an explicit
`% 2^32`.  Every function is structurally recursive (on a list or on a `Nat`
counter), so the kernel can evaluate test vectors (`decide +kernel`): `Nat`
addition, `%`, `/`, `*`, `^^^`, `&&&`, `|||`, shifts all have kernel (GMP)
acceleration.

This is the contract assumed of the `sha1` crate (`Sha1::update/finalize`); the
C20 correspondence stream compares it with the crate on every run.
-/
namespace Dropshot.Sha1

def W32 : Nat := 4294967296  -- 2^32

/-- Circular left shift of a 32-bit word, `S^n(X)` of RFC 3174 §3 (0 < n < 32). -/
def rotl (n x : Nat) : Nat := ((x <<< n) % W32) ||| (x >>> (32 - n))

/-- Bitwise complement of a 32-bit word. -/
def not32 (x : Nat) : Nat := x ^^^ 4294967295

/-- Big-endian bytes of `x`, `n` of them (most significant first). -/
def beBytes : Nat → Nat → List Nat
  | 0, _ => []
  | n + 1, x => (x / 256 ^ n) % 256 :: beBytes n x

/-- RFC 3174 §4 padding: `1` bit, zeros up to 56 mod 64, then the bit length as
a 64-bit big-endian integer. -/
def pad (msg : List Nat) : List Nat :=
  let l := msg.length
  msg ++ 128 :: (List.replicate ((119 - l % 64) % 64) 0 ++ beBytes 8 (8 * l))

/-- Big-endian 32-bit word from 4 bytes. -/
def word (a b c d : Nat) : Nat := ((a * 256 + b) * 256 + c) * 256 + d

/-- The first `n` big-endian words of a byte string, and the remaining bytes. -/
def takeWords : Nat → List Nat → List Nat × List Nat
  | 0, bs => ([], bs)
  | n + 1, a :: b :: c :: d :: rest =>
      let (ws, r) := takeWords n rest
      (word a b c d :: ws, r)
  | _ + 1, bs => ([], bs)   -- not reached on padded input

/-- Message schedule, RFC 3174 §6.1 (b).  `w` holds the words computed so far,
**newest first**; extends it by `n` words `W(t) = S^1(W(t-3) ^ W(t-8) ^ W(t-14) ^ W(t-16))`. -/
def schedule : Nat → List Nat → List Nat
  | 0, w => w
  | n + 1, w =>
      schedule n (rotl 1 (w.getD 2 0 ^^^ w.getD 7 0 ^^^ w.getD 13 0 ^^^ w.getD 15 0) :: w)

structure State where
  a : Nat
  b : Nat
  c : Nat
  d : Nat
  e : Nat
deriving DecidableEq, Repr

def init : State :=
  { a := 0x67452301, b := 0xEFCDAB89, c := 0x98BADCFE, d := 0x10325476, e := 0xC3D2E1F0 }

/-- `f(t;B,C,D)` of RFC 3174 §5. -/
def f (t b c d : Nat) : Nat :=
  if t < 20 then (b &&& c) ||| (not32 b &&& d)
  else if t < 40 then b ^^^ c ^^^ d
  else if t < 60 then (b &&& c) ||| (b &&& d) ||| (c &&& d)
  else b ^^^ c ^^^ d

/-- `K(t)` of RFC 3174 §5. -/
def k (t : Nat) : Nat :=
  if t < 20 then 0x5A827999
  else if t < 40 then 0x6ED9EBA1
  else if t < 60 then 0x8F1BBCDC
  else 0xCA62C1D6

/-- One round, RFC 3174 §6.1 (d). -/
def round (t w : Nat) (s : State) : State :=
  { a := (rotl 5 s.a + f t s.b s.c s.d + s.e + w + k t) % W32
    b := s.a
    c := rotl 30 s.b
    d := s.c
    e := s.d }

/-- Rounds `t, t+1, …` over the given words (oldest first). -/
def rounds : Nat → List Nat → State → State
  | _, [], s => s
  | t, w :: ws, s => rounds (t + 1) ws (round t w s)

/-- Process one 16-word block, RFC 3174 §6.1. -/
def block (h : State) (ws : List Nat) : State :=
  let w80 := (schedule 64 ws.reverse).reverse
  let s := rounds 0 w80 h
  { a := (h.a + s.a) % W32, b := (h.b + s.b) % W32, c := (h.c + s.c) % W32,
    d := (h.d + s.d) % W32, e := (h.e + s.e) % W32 }

/-- Process `n` 64-byte blocks. -/
def blocks : Nat → List Nat → State → State
  | 0, _, h => h
  | n + 1, bs, h =>
      let (ws, rest) := takeWords 16 bs
      blocks n rest (block h ws)

/-- The 20-byte SHA-1 digest of a byte string. -/
def sha1 (msg : List Nat) : List Nat :=
  let p := pad msg
  let h := blocks (p.length / 64) p init
  beBytes 4 h.a ++ beBytes 4 h.b ++ beBytes 4 h.c ++ beBytes 4 h.d ++ beBytes 4 h.e

end Dropshot.Sha1
