/-
Model of the part of `http::HeaderMap` that dropshot relies on (error.rs
`into_response`, server.rs `http_request_handle`, handler.rs
`HttpResponseHeaders::to_result`): a multimap from (lower-cased) header names
to ordered lists of values, with

* `append`  (`HeaderMap::append`, `response::Builder::header`): add one more value;
* `insert`  (`HeaderMap::insert`): drop every value of the name, then add one;
* `extend`  (`Extend<(Option<HeaderName>, T)>` fed with another map's
  `IntoIter`): for every name of the other map, in first-insertion order, the
  first value goes through `entry.insert` (replace all), the following values
  of that name through `entry.append`.

The observable content of a map is `getAll n` for every name `n` (the order
in which *different* names are written on the wire is not modelled; drivers
compare maps sorted by name, values of one name in order).  Generic in the
name and value types.  External crate: modelled, compared on the `hm`
stream of C12, not verified.
-/
namespace Dropshot.HMap

variable {N V : Type} [DecidableEq N]

/-- All values of a name, in order (`HeaderMap::get_all`). -/
def getAll (n : N) (m : List (N × V)) : List V :=
  (m.filter fun p => p.1 = n).map (·.2)

/-- First value of a name (`HeaderMap::get`). -/
def get (n : N) (m : List (N × V)) : Option V := (getAll n m).head?

def contains (n : N) (m : List (N × V)) : Bool := m.any fun p => p.1 = n

def remove (n : N) (m : List (N × V)) : List (N × V) := m.filter fun p => p.1 ≠ n

/-- `HeaderMap::append` / `Builder::header`. -/
def append (n : N) (v : V) (m : List (N × V)) : List (N × V) := m ++ [(n, v)]

/-- `HeaderMap::insert`: previous values of the name are discarded. -/
def insert (n : N) (v : V) (m : List (N × V)) : List (N × V) := remove n m ++ [(n, v)]

/-- Distinct names in first-insertion order (the entry order of `IntoIter`);
`seen` are names already yielded. -/
def firstNames (seen : List N) : List (N × V) → List N
  | [] => []
  | (n, _) :: rest =>
    if n ∈ seen then firstNames seen rest else n :: firstNames (n :: seen) rest

/-- One `IntoIter` group `(Some(name), v), (None, v'), …` consumed by `extend`:
`entry.insert(v)` (replace) followed by `entry.append(v')` for the rest. -/
def extendGroup (m : List (N × V)) (n : N) : List V → List (N × V)
  | [] => m
  | v :: vs => vs.foldl (fun acc w => append n w acc) (insert n v m)

/-- `m.extend(other)` for `other : HeaderMap`. -/
def extend (m other : List (N × V)) : List (N × V) :=
  (firstNames [] other).foldl (fun acc n => extendGroup acc n (getAll n other)) m

/-- Two maps with the same observable content. -/
def Equiv (a b : List (N × V)) : Prop := ∀ n, getAll n a = getAll n b

end Dropshot.HMap
