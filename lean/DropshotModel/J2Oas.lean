/-
J2Oas.lean — model of `dropshot/src/schema_util.rs::j2oas_schema` and its
helpers (`j2oas_schema_object`, `j2oas_subschemas`, `j2oas_integer`,
`j2oas_number`, `j2oas_string`, `j2oas_array`, `j2oas_object`), arm for arm.
Every `panic!` / `unwrap()` on `None` is an `Except.error` value; quirks are
kept:

* a `$ref` wins over everything else in the object (siblings dropped);
* `type: null` becomes `{type: string, enum: [null]}` (finding K3);
* `type: array` with `array: None` panics (`unwrap`), `type: object` with
  `object: None` does not;
* with `type` and `subschemas` both absent everything else (enum, bounds, …)
  is dropped and the result is the unconstrained `Any`;
* integer bounds go through `f64 as i64` (saturating), integer enum values
  through `as_i64().unwrap()`;
* a `Bool` schema under `additionalProperties` is kept as a boolean, anywhere
  else `false` panics;
* the title is overridden by the `name` argument; `example` comes from the
  extensions, only `x-…` extensions survive, `nullable` needs `Bool(true)`.
-/
import DropshotModel.Schema

namespace Dropshot.Schema

/-- which `panic!` fired (the harness only observes *that* one did). -/
inductive Panic where
  | nullSet            -- "We don't expect to see a schema that matches the null set"
  | typeArray          -- "a type array is unsupported by openapiv3"
  | typeAndSubschemas  -- "a schema can't have both a type and subschemas"
  | enumValue          -- "unexpected enumeration value"
  | enumNotI64         -- `value.as_i64().unwrap()`
  | invalidSubschema   -- "invalid subschema"
  | invalidBounds      -- "invalid" (minimum together with exclusiveMinimum, …)
  | tupleItems         -- "OpenAPI v3.0.x cannot support tuple-like arrays"
  | arrayNone          -- `array.as_ref().unwrap()`
deriving Repr, DecidableEq

def i64Min : Int := -9223372036854775808
def i64Max : Int := 9223372036854775807

def inI64 (n : Int) : Bool := decide (i64Min ≤ n) && decide (n ≤ i64Max)

/-- Rust's saturating `f64 as i64` on an integral value. -/
def castI64 (n : Int) : Int :=
  if n < i64Min then i64Min else if i64Max < n then i64Max else n

/-- the `format` match of `j2oas_integer` / `j2oas_number` / `j2oas_string`. -/
def mkFmt (known : List String) : Option String → Fmt
  | none => .empty
  | some s => if known.contains s then .item s else .unknown s

def intFormats : List String := ["int32", "int64"]
def numFormats : List String := ["float", "double"]
def strFormats : List String := ["date", "date-time", "password", "byte", "binary"]

/-- enumeration conversion shared by the typed arms: `Null ↦ None`, a value of
the arm's own kind ↦ `Some`, anything else panics. -/
def convEnum {α : Type} (f : J → Except Panic α) : List J → Except Panic (List (Option α))
  | [] => .ok []
  | .null :: rest =>
    match convEnum f rest with
    | .ok r => .ok (none :: r)
    | .error e => .error e
  | v :: rest =>
    match f v with
    | .error e => .error e
    | .ok a =>
      match convEnum f rest with
      | .ok r => .ok (some a :: r)
      | .error e => .error e

def convEnumOpt {α : Type} (f : J → Except Panic α) : Option (List J) → Except Panic (List (Option α))
  | none => .ok []
  | some vs => convEnum f vs

def asBool : J → Except Panic Bool
  | .bool b => .ok b
  | _ => .error .enumValue
def asStr : J → Except Panic String
  | .str s => .ok s
  | _ => .error .enumValue
/-- `Number(value) => value.as_f64().unwrap()`. -/
def asNum : J → Except Panic Int
  | .num n => .ok n
  | _ => .error .enumValue
/-- `Number(value) => value.as_i64().unwrap()`. -/
def asI64 : J → Except Panic Int
  | .num n => if inI64 n then .ok n else .error .enumNotI64
  | _ => .error .enumValue

/-- `(number.minimum, number.exclusive_minimum)` ↦ `(minimum, exclusive_minimum)`
(same shape for the maximum). -/
def bound (cast : Int → Int) : Option Int → Option Int → Except Panic (Option Int × Bool)
  | none, none => .ok (none, false)
  | some f, none => .ok (some (cast f), false)
  | none, some f => .ok (some (cast f), true)
  | some _, some _ => .error .invalidBounds

/-- common body of `j2oas_integer` (`cast = castI64`) and `j2oas_number`
(`cast = id`). -/
def j2oasNumeric (cast : Int → Int) (conv : J → Except Panic Int) (fmt : Fmt)
    (number : Option NumV) (en : Option (List J)) : Except Panic NumType :=
  let bounds : Except Panic (Option Int × (Option Int × Bool) × (Option Int × Bool)) :=
    match number with
    | none => .ok (none, (none, false), (none, false))
    | some v =>
      match bound cast v.minimum v.exclusiveMinimum with
      | .error e => .error e
      | .ok mn =>
        match bound cast v.maximum v.exclusiveMaximum with
        | .error e => .error e
        | .ok mx => .ok (v.multipleOf.map cast, mn, mx)
  match bounds with
  | .error e => .error e
  | .ok (mult, (mn, exMn), (mx, exMx)) =>
    match convEnumOpt conv en with
    | .error e => .error e
    | .ok e => .ok { format := fmt, multipleOf := mult, exclusiveMinimum := exMn,
                     exclusiveMaximum := exMx, minimum := mn, maximum := mx, enumeration := e }

def j2oasInteger (format : Option String) (number : Option NumV) (en : Option (List J)) :
    Except Panic OKind :=
  match j2oasNumeric castI64 asI64 (mkFmt intFormats format) number en with
  | .ok t => .ok (.integer t)
  | .error e => .error e

def j2oasNumber (format : Option String) (number : Option NumV) (en : Option (List J)) :
    Except Panic OKind :=
  match j2oasNumeric id asNum (mkFmt numFormats format) number en with
  | .ok t => .ok (.number t)
  | .error e => .error e

def j2oasString (format : Option String) (string : Option StrV) (en : Option (List J)) :
    Except Panic OKind :=
  match convEnumOpt asStr en with
  | .error e => .error e
  | .ok e =>
    let (maxL, minL, pat) := match string with
      | none => (none, none, none)
      | some v => (v.maxLength, v.minLength, v.pattern)
    .ok (.string { format := mkFmt strFormats format, pattern := pat, enumeration := e,
                   minLength := minL, maxLength := maxL })

def j2oasBoolean (en : Option (List J)) : Except Panic OKind :=
  match convEnumOpt asBool en with
  | .ok e => .ok (.boolean e)
  | .error e => .error e

/-- `key.starts_with("x-")` (spelled over `toList` so that the kernel can
evaluate it in the witnesses). -/
def isXExt (k : String) : Bool := k.toList.take 2 == ['x', '-']

/-- the `SchemaData` built at the end of `j2oas_schema_object`. -/
def mkData (name : Option String) (metadata : Option Meta) (ext : List (String × J)) : SData :=
  let d0 : SData := { nullable := extNullable ext }
  let d1 : SData := match metadata with
    | none => d0
    | some m => { d0 with title := m.title, description := m.description, default := m.default,
                          deprecated := m.deprecated, readOnly := m.readOnly, writeOnly := m.writeOnly }
  let d2 : SData := { d1 with extensions := ext.filter (fun kv => isXExt kv.1) }
  let d3 : SData := match name with
    | none => d2
    | some n => { d2 with title := some n }
  match J.lookup "example" ext with
  | none => d3
  | some e => { d3 with exampleVal := some e }

/-- `instance_type` after the type-array panic. -/
inductive TyArm where
  | absent
  | one (t : IType)
  | typeArray

def tyArm : Option (SV IType) → TyArm
  | none => .absent
  | some (.single t) => .one t
  | some (.vec _) => .typeArray

mutual
/-- `j2oas_schema` (with `j2oas_schema_object` inlined in the `obj` arm). -/
def j2oas (name : Option String) : JS → Except Panic RefOr
  | .bool true => .ok (.item (.mk {} .any))
  | .bool false => .error .nullSet
  | .obj md ty fmt en _cv subs num str arr ob rf ext =>
    match rf with
    | some r => .ok (.ref r)
    | none =>
      let kind : Except Panic OKind :=
        match tyArm ty, subs with
        | .typeArray, _ => .error .typeArray
        | .one .null, .none => .ok (.string { enumeration := [none] })
        | .one .boolean, .none => j2oasBoolean en
        | .one .object, .none => j2oasObject ob
        | .one .array, .none => j2oasArray arr
        | .one .number, .none => j2oasNumber fmt num en
        | .one .string, .none => j2oasString fmt str en
        | .one .integer, .none => j2oasInteger fmt num en
        | .absent, .some .. => j2oasSubschemas subs
        | .absent, .none => .ok .any
        | .one _, .some .. => .error .typeAndSubschemas
      match kind with
      | .error e => .error e
      | .ok k => .ok (.item (.mk (mkData name md ext) k))
/-- `iter().map(|schema| j2oas_schema(None, schema)).collect()`. -/
def j2oasList : JSList → Except Panic ORList
  | .nil => .ok .nil
  | .cons s rest =>
    match j2oas none s with
    | .error e => .error e
    | .ok r =>
      match j2oasList rest with
      | .error e => .error e
      | .ok rs => .ok (.cons r rs)
/-- `j2oas_subschemas`: exactly one of allOf / anyOf / oneOf / not; `if`,
`then`, `else` are not looked at. -/
def j2oasSubschemas : JSSubs → Except Panic OKind
  | .some (.some l) .none .none .none _ _ _ =>
    match j2oasList l with | .ok rs => .ok (.allOf rs) | .error e => .error e
  | .some .none (.some l) .none .none _ _ _ =>
    match j2oasList l with | .ok rs => .ok (.anyOf rs) | .error e => .error e
  | .some .none .none (.some l) .none _ _ _ =>
    match j2oasList l with | .ok rs => .ok (.oneOf rs) | .error e => .error e
  | .some .none .none .none (.some s) _ _ _ =>
    match j2oas none s with | .ok r => .ok (.not r) | .error e => .error e
  | .some .. => .error .invalidSubschema
  | .none => .error .invalidSubschema  -- not reachable: the caller passes `Some(subschema)`
/-- `j2oas_array`: `array.as_ref().unwrap()`; `additional_items` and
`contains` are not looked at. -/
def j2oasArray : JSArr → Except Panic OKind
  | .none => .error .arrayNone
  | .some items _ maxI minI uniq _ =>
    match j2oasItems items with
    | .error e => .error e
    | .ok it => .ok (.array it minI maxI (uniq.getD false))
/-- the `items` match of `j2oas_array`. -/
def j2oasItems : JSItems → Except Panic OROpt
  | .none => .ok .none
  | .single s => (match j2oas none s with | .ok r => .ok (.some r) | .error e => .error e)
  | .vec _ => .error .tupleItems
def j2oasProps : JSProps → Except Panic ORProps
  | .nil => .ok .nil
  | .cons k s rest =>
    match j2oas none s with
    | .error e => .error e
    | .ok r =>
      match j2oasProps rest with
      | .error e => .error e
      | .ok rs => .ok (.cons k r rs)
/-- the `additional_properties` closure of `j2oas_object`. -/
def j2oasAddl : JSOpt → Except Panic OAddl
  | .none => .ok .none
  | .some (.bool b) => .ok (.any b)
  | .some (.obj md ty fmt en cv subs num str arr ob rf ext) =>
    match j2oas none (.obj md ty fmt en cv subs num str arr ob rf ext) with
    | .ok r => .ok (.schema r)
    | .error e => .error e
/-- `j2oas_object`: `pattern_properties` and `property_names` are not looked at. -/
def j2oasObject : JSObjV → Except Panic OKind
  | .none => .ok (.object .nil [] .none none none)
  | .some maxP minP req props _ addl _ =>
    match j2oasProps props with
    | .error e => .error e
    | .ok ps =>
      match j2oasAddl addl with
      | .error e => .error e
      | .ok a => .ok (.object ps req a minP maxP)
end

/-! ## The supported fragment

`JS.supported s` is the hypothesis of `C08.j2oas_preserves`: the schemas on
which the conversion is claimed to preserve meaning.  It excludes exactly the
keywords the converter does not look at *where they would constrain
something* (each exclusion has a negation witness in `DropshotProofs/C08.lean`),
the `null` instance type (finding K3) and integer bounds outside `i64`.
Keywords that are vacuous for the declared type (e.g. `minimum` beside
`type: string`) are allowed: dropping them changes nothing. -/

def enumNonEmpty : Option (List J) → Bool
  | some [] => false
  | _ => true

/-- no numeric keyword present. -/
def numTrivial : Option NumV → Bool
  | none => true
  | some v => v.multipleOf.isNone && v.maximum.isNone && v.exclusiveMaximum.isNone
              && v.minimum.isNone && v.exclusiveMinimum.isNone

/-- every bound that `j2oas_integer` casts with `as i64` is representable. -/
def numInI64 : Option NumV → Bool
  | none => true
  | some v => optAll v.multipleOf inI64 && optAll v.maximum inI64 && optAll v.exclusiveMaximum inI64
              && optAll v.minimum inI64 && optAll v.exclusiveMinimum inI64

def strTrivial : Option StrV → Bool
  | none => true
  | some v => v.maxLength.isNone && v.minLength.isNone && v.pattern.isNone

/-- no array keyword that constrains anything. -/
def JSArr.trivial : JSArr → Bool
  | .none => true
  | .some .none _ Option.none Option.none uniq .none => uniq != Option.some true
  | .some .. => false

/-- no object keyword that constrains anything. -/
def JSObjV.trivial : JSObjV → Bool
  | .none => true
  | .some Option.none Option.none [] .nil .nil .none .none => true
  | .some .. => false

def JSOpt.isNone : JSOpt → Bool
  | .none => true
  | .some _ => false

mutual
def JS.supported : JS → Bool
  | .bool _ => true
  | .obj _ ty _ en cv subs num str arr ob rf _ =>
    match rf with
    | some _ =>
      -- a reference stands alone: the converter returns it and drops the rest
      ty.isNone && en.isNone && cv.isNone && !subs.isSome && numTrivial num && strTrivial str
      && arr.trivial && ob.trivial
    | none =>
      cv.isNone &&
      (match tyArm ty with
        | .typeArray => false
        | .one .null => false                       -- finding K3
        | .one .boolean => enumNonEmpty en
        | .one .number => enumNonEmpty en
        | .one .string => enumNonEmpty en
        | .one .integer => enumNonEmpty en && numInI64 num
        | .one .object => en.isNone && ob.supported
        | .one .array => en.isNone && arr.supported
        | .absent =>
          en.isNone && numTrivial num && strTrivial str && arr.trivial && ob.trivial
          && subs.supported)
def JSOpt.supported : JSOpt → Bool
  | .none => true
  | .some s => s.supported
def JSList.supported : JSList → Bool
  | .nil => true
  | .cons s rest => s.supported && rest.supported
def JSOptList.supported : JSOptList → Bool
  | .none => true
  | .some l => l.supported
def JSSubs.supported : JSSubs → Bool
  | .none => true
  | .some allOf anyOf oneOf nt ifS _ _ =>
    (match ifS with | .none => true | .some _ => false)
    && allOf.supported && anyOf.supported && oneOf.supported && nt.supported
def JSArr.supported : JSArr → Bool
  | .none => true
  | .some items _ _ _ _ cont => cont.isNone && items.supported
def JSItems.supported : JSItems → Bool
  | .none => true
  | .single s => s.supported
  | .vec _ => false
def JSProps.supported : JSProps → Bool
  | .nil => true
  | .cons _ s rest => s.supported && rest.supported
def JSObjV.supported : JSObjV → Bool
  | .none => true
  | .some _ _ _ props pprops addl pnames =>
    (match pprops with | .nil => true | .cons .. => false)
    && (match pnames with | .none => true | .some _ => false)
    && props.supported && addl.supported
end

/-! ## Documents: named definitions and `$ref` resolution

`components.schemas[X] = j2oas(definitions[X])` and both sides keep the
reference string verbatim, so a reference is interpreted by validating against
the named definition; recursion through references is cut by fuel (`0` fuel:
reject).  `C08.j2oas_preserves_document` lifts preservation to this setting. -/

def lookupDef {α : Type} (name : String) : List (String × α) → Option α
  | [] => none
  | (k, v) :: rest => if name == k then some v else lookupDef name rest

/-- convert every definition with `j2oas_schema(None, _)` (api_description.rs 1088–1097). -/
def convDefs : List (String × JS) → Except Panic (List (String × RefOr))
  | [] => .ok []
  | (k, s) :: rest =>
    match j2oas none s with
    | .error e => .error e
    | .ok r =>
      match convDefs rest with
      | .error e => .error e
      | .ok rs => .ok ((k, r) :: rs)

def refJS (pat : String → String → Bool) (defs : List (String × JS)) : Nat → String → J → Bool
  | 0, _, _ => false
  | fuel + 1, name, j =>
    match lookupDef name defs with
    | none => false
    | some s => s.valid ⟨refJS pat defs fuel, pat⟩ j

def refOAS (pat : String → String → Bool) (defs : List (String × RefOr)) : Nat → String → J → Bool
  | 0, _, _ => false
  | fuel + 1, name, j =>
    match lookupDef name defs with
    | none => false
    | some r => r.valid ⟨refOAS pat defs fuel, pat⟩ j

end Dropshot.Schema
