/-
Model of the `base64` crate's padded general-purpose engines (`STANDARD`,
`URL_SAFE`): encoding with `=` padding; strict decoding (canonical padding
required, no trailing bits, no foreign bytes).  Bytes are `Nat`s < 256.
-/
namespace Dropshot.Base64

inductive Alphabet | standard | urlSafe
deriving DecidableEq, Repr

/-- The 6-bit value → symbol map. -/
def sym (a : Alphabet) (v : Nat) : Nat :=
  if v < 26 then 65 + v            -- A-Z
  else if v < 52 then 97 + (v - 26) -- a-z
  else if v < 62 then 48 + (v - 52) -- 0-9
  else if v = 62 then (match a with | .standard => 43 | .urlSafe => 45)  -- '+' / '-'
  else (match a with | .standard => 47 | .urlSafe => 95)                 -- '/' / '_'

/-- Symbol → 6-bit value. -/
def val (a : Alphabet) (c : Nat) : Option Nat :=
  if 65 ≤ c ∧ c ≤ 90 then some (c - 65)
  else if 97 ≤ c ∧ c ≤ 122 then some (c - 97 + 26)
  else if 48 ≤ c ∧ c ≤ 57 then some (c - 48 + 52)
  else match a with
    | .standard => if c = 43 then some 62 else if c = 47 then some 63 else none
    | .urlSafe => if c = 45 then some 62 else if c = 95 then some 63 else none

def pad : Nat := 61  -- '='

def encode (a : Alphabet) : List Nat → List Nat
  | [] => []
  | [x] => [sym a (x / 4), sym a ((x % 4) * 16), pad, pad]
  | [x, y] => [sym a (x / 4), sym a ((x % 4) * 16 + y / 16), sym a ((y % 16) * 4), pad]
  | x :: y :: z :: rest =>
      sym a (x / 4) :: sym a ((x % 4) * 16 + y / 16) :: sym a ((y % 16) * 4 + z / 64) :: sym a (z % 64)
        :: encode a rest

/-- Strict decode: length a multiple of 4; `=` only as canonical final padding;
unused low bits of the last symbol must be zero. -/
def decode (a : Alphabet) : List Nat → Option (List Nat)
  | [] => some []
  | [c1, c2, p1, p2] =>
    if p1 = pad ∧ p2 = pad then
      match val a c1, val a c2 with
      | some v1, some v2 => if v2 % 16 = 0 then some [v1 * 4 + v2 / 16] else none
      | _, _ => none
    else if p2 = pad then
      match val a c1, val a c2, val a p1 with
      | some v1, some v2, some v3 =>
        if v3 % 4 = 0 then some [v1 * 4 + v2 / 16, (v2 % 16) * 16 + v3 / 4] else none
      | _, _, _ => none
    else
      match val a c1, val a c2, val a p1, val a p2 with
      | some v1, some v2, some v3, some v4 =>
        some [v1 * 4 + v2 / 16, (v2 % 16) * 16 + v3 / 4, (v3 % 4) * 64 + v4]
      | _, _, _, _ => none
  | c1 :: c2 :: c3 :: c4 :: rest =>
    match val a c1, val a c2, val a c3, val a c4, decode a rest with
    | some v1, some v2, some v3, some v4, some tl =>
      some ((v1 * 4 + v2 / 16) :: ((v2 % 16) * 16 + v3 / 4) :: ((v3 % 4) * 64 + v4) :: tl)
    | _, _, _, _, _ => none
  | _ => none

end Dropshot.Base64
