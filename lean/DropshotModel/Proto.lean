/-
Line-protocol helpers shared by every driver (not verified; part of the
trusted glue).  Byte strings travel hex-encoded, the empty string as "-".
-/
namespace Dropshot.Proto

def hexVal (c : Char) : Option Nat :=
  if '0' ≤ c ∧ c ≤ '9' then some (c.toNat - '0'.toNat)
  else if 'a' ≤ c ∧ c ≤ 'f' then some (c.toNat - 'a'.toNat + 10)
  else if 'A' ≤ c ∧ c ≤ 'F' then some (c.toNat - 'A'.toNat + 10)
  else none

def unhexAux : List Char → List UInt8 → Option (List UInt8)
  | [], acc => some acc.reverse
  | [_], _ => none
  | a :: b :: rest, acc =>
    match hexVal a, hexVal b with
    | some x, some y => unhexAux rest (UInt8.ofNat (16 * x + y) :: acc)
    | _, _ => none

/-- Decode a hex field ("-" is the empty byte string). -/
def unhex (s : String) : Option (List UInt8) :=
  if s = "-" then some [] else unhexAux s.toList []

def hexDigit (n : Nat) : Char :=
  if n < 10 then Char.ofNat (n + '0'.toNat) else Char.ofNat (n - 10 + 'a'.toNat)

def hex (bs : List UInt8) : String :=
  if bs.isEmpty then "-"
  else String.ofList (bs.flatMap fun b => [hexDigit (b.toNat / 16), hexDigit (b.toNat % 16)])

/-- Bytes to String when they are ASCII; `none` otherwise. -/
def asciiString (bs : List UInt8) : Option String :=
  if bs.all (· < 128) then some (String.ofList (bs.map fun b => Char.ofNat b.toNat)) else none

def strBytes (s : String) : List UInt8 := s.toUTF8.toList

/-- Split a protocol line into fields (single spaces). -/
def fields (line : String) : List String :=
  (line.trimAscii.toString.splitOn " ").filter (· ≠ "")

/-- Split `xs` at the first occurrence of `sep`. -/
def splitAt (sep : String) : List String → List String × List String
  | [] => ([], [])
  | x :: xs => if x = sep then ([], xs) else
      let (a, b) := splitAt sep xs
      (x :: a, b)

def b2s (b : Bool) : String := if b then "1" else "0"

/-- Generic driver loop: `handle` maps one input line to one output line. -/
partial def loop (h : IO.FS.Stream) (out : IO.FS.Stream) (handle : String → String) : IO Unit := do
  let line ← h.getLine
  if line.isEmpty then return ()
  let l := line.trimAscii.toString
  if l.isEmpty then loop h out handle else
  out.putStrLn (handle l)
  loop h out handle

def runDriver (handle : String → String) : IO Unit := do
  let i ← IO.getStdin
  let o ← IO.getStdout
  loop i o handle
  o.flush

end Dropshot.Proto
