/-
JSON as `serde_json` writes and reads it, for the value shapes the framework
uses (page tokens, error bodies): a value type, the compact printer
(`serde_json::to_vec`) and a strict RFC 8259 parser (`serde_json::from_slice`
into a typed value).

Bytes are `Nat`s < 256.  Strings and object keys are kept as their UTF-8 byte
strings (one representation everywhere; a Rust `String` is exactly a
well-formed UTF-8 byte string, `utf8Ok`).  Numbers: the modelled fragment is
the integers, spelled without leading zeros; `-0`, fractions and exponents
are *outside* the fragment and the parser answers `none` for them (serde_json
would produce a float there; no page selector in the harness has a float).

Import-free; all recursion is structural (the parser is fuel-based: every call
consumes one unit, and `parse` supplies `length + 1`, which is always enough —
see `Lemmas/Json.lean`, `parse_print`).
-/
namespace Dropshot.Json

mutual
  inductive JVal
    | null
    | bool (b : Bool)
    | num (n : Int)
    | str (s : List Nat)
    | arr (xs : JList)
    | obj (kvs : JFields)
  deriving DecidableEq
  inductive JList
    | nil
    | cons (x : JVal) (xs : JList)
  deriving DecidableEq
  inductive JFields
    | nil
    | cons (k : List Nat) (v : JVal) (kvs : JFields)
  deriving DecidableEq
end

instance : Inhabited JVal := ⟨.null⟩

/-! ### conversions to and from ordinary lists -/

def JList.toList : JList → List JVal
  | .nil => []
  | .cons x xs => x :: xs.toList

def JList.ofList : List JVal → JList
  | [] => .nil
  | x :: xs => .cons x (JList.ofList xs)

def JFields.toList : JFields → List (List Nat × JVal)
  | .nil => []
  | .cons k v kvs => (k, v) :: kvs.toList

def JFields.ofList : List (List Nat × JVal) → JFields
  | [] => .nil
  | (k, v) :: kvs => .cons k v (JFields.ofList kvs)

def JList.length : JList → Nat
  | .nil => 0
  | .cons _ xs => xs.length + 1

/-! ### UTF-8 well-formedness (Unicode Table 3-7; `str::from_utf8`) -/

def isCont (b : Nat) : Bool := decide (128 ≤ b ∧ b ≤ 191)

/-- Second byte of a 3-byte sequence led by `b0` (no overlongs, no surrogates). -/
def ok3 (b0 b1 : Nat) : Bool :=
  decide ((if b0 = 224 then 160 else 128) ≤ b1 ∧ b1 ≤ (if b0 = 237 then 159 else 191))

/-- Second byte of a 4-byte sequence led by `b0` (no overlongs, ≤ U+10FFFF). -/
def ok4 (b0 b1 : Nat) : Bool :=
  decide ((if b0 = 240 then 144 else 128) ≤ b1 ∧ b1 ≤ (if b0 = 244 then 143 else 191))

def utf8Ok : List Nat → Bool
  | [] => true
  | b0 :: rest =>
    if b0 < 128 then utf8Ok rest
    else if 194 ≤ b0 ∧ b0 ≤ 223 then
      match rest with
      | b1 :: r => isCont b1 && utf8Ok r
      | _ => false
    else if 224 ≤ b0 ∧ b0 ≤ 239 then
      match rest with
      | b1 :: b2 :: r => ok3 b0 b1 && isCont b2 && utf8Ok r
      | _ => false
    else if 240 ≤ b0 ∧ b0 ≤ 244 then
      match rest with
      | b1 :: b2 :: b3 :: r => ok4 b0 b1 && isCont b2 && isCont b3 && utf8Ok r
      | _ => false
    else false

/-- `char::encode_utf8` of a scalar value. -/
def utf8Enc (c : Nat) : List Nat :=
  if c < 128 then [c]
  else if c < 2048 then [192 + c / 64, 128 + c % 64]
  else if c < 65536 then [224 + c / 4096, 128 + c / 64 % 64, 128 + c % 64]
  else [240 + c / 262144, 128 + c / 4096 % 64, 128 + c / 64 % 64, 128 + c % 64]

/-! ### printer (`serde_json::to_vec`, compact) -/

/-- Lower-case hex digit, as serde_json's `\u00xx`. -/
def hexDigit (n : Nat) : Nat := if n < 10 then 48 + n else 87 + n

/-- serde_json's `ESCAPE` table: `"` `\` and the C0 controls; everything else
(including DEL and all non-ASCII bytes) is copied. -/
def escByte (b : Nat) : List Nat :=
  if b = 34 then [92, 34]
  else if b = 92 then [92, 92]
  else if b = 8 then [92, 98]
  else if b = 9 then [92, 116]
  else if b = 10 then [92, 110]
  else if b = 12 then [92, 102]
  else if b = 13 then [92, 114]
  else if b < 32 then [92, 117, 48, 48, hexDigit (b / 16), hexDigit (b % 16)]
  else [b]

/-- The string body and the closing quote. -/
def printStrBody : List Nat → List Nat
  | [] => [34]
  | b :: r => escByte b ++ printStrBody r

def printStr (s : List Nat) : List Nat := 34 :: printStrBody s

/-- Decimal digits, most significant first (`fuel > n` is always enough). -/
def natDigits : Nat → Nat → List Nat
  | 0, _ => []
  | f + 1, n => if n < 10 then [48 + n] else natDigits f (n / 10) ++ [48 + n % 10]

def natDec (n : Nat) : List Nat := natDigits (n + 1) n

def printInt : Int → List Nat
  | .ofNat k => natDec k
  | .negSucc k => 45 :: natDec (k + 1)

mutual
  def JVal.print : JVal → List Nat
    | .null => [110, 117, 108, 108]
    | .bool true => [116, 114, 117, 101]
    | .bool false => [102, 97, 108, 115, 101]
    | .num n => printInt n
    | .str s => printStr s
    | .arr .nil => [91, 93]
    | .arr (.cons x xs) => 91 :: (x.print ++ xs.printTail)
    | .obj .nil => [123, 125]
    | .obj (.cons k v kvs) => 123 :: (printStr k ++ 58 :: (v.print ++ kvs.printTail))
  /-- `,x,y…]` -/
  def JList.printTail : JList → List Nat
    | .nil => [93]
    | .cons x xs => 44 :: (x.print ++ xs.printTail)
  /-- `,"k":v…}` -/
  def JFields.printTail : JFields → List Nat
    | .nil => [125]
    | .cons k v kvs => 44 :: (printStr k ++ 58 :: (v.print ++ kvs.printTail))
end

/-! ### parser (`serde_json::from_slice`, strict) -/

def isWs (c : Nat) : Bool := c = 32 || c = 9 || c = 10 || c = 13

def skipWs : List Nat → List Nat
  | [] => []
  | c :: r => if isWs c then skipWs r else c :: r

def isDigit (c : Nat) : Bool := decide (48 ≤ c ∧ c ≤ 57)

/-- Value of a hex digit (either case). -/
def hexVal (c : Nat) : Option Nat :=
  if 48 ≤ c ∧ c ≤ 57 then some (c - 48)
  else if 97 ≤ c ∧ c ≤ 102 then some (c - 87)
  else if 65 ≤ c ∧ c ≤ 70 then some (c - 55)
  else none

def hex4 (a b c d : Nat) : Option Nat :=
  match hexVal a, hexVal b, hexVal c, hexVal d with
  | some a, some b, some c, some d => some (((a * 16 + b) * 16 + c) * 16 + d)
  | _, _, _, _ => none

def pushTo (pre : List Nat) : Option (List Nat × List Nat) → Option (List Nat × List Nat)
  | some (s, r) => some (pre ++ s, r)
  | none => none

/-- After the opening quote: the decoded string (UTF-8 bytes) and the input
after the closing quote.  Escapes `\" \\ \/ \b \f \n \r \t \uXXXX` (surrogate
pairs combined, lone surrogates refused); raw control characters refused; raw
non-ASCII bytes must be well-formed UTF-8. -/
def parseStr : List Nat → Option (List Nat × List Nat)
  | [] => none
  | b :: r =>
    if b = 34 then some ([], r)
    else if b = 92 then
      match r with
      | [] => none
      | e :: r1 =>
        if e = 34 then pushTo [34] (parseStr r1)
        else if e = 92 then pushTo [92] (parseStr r1)
        else if e = 47 then pushTo [47] (parseStr r1)
        else if e = 98 then pushTo [8] (parseStr r1)
        else if e = 102 then pushTo [12] (parseStr r1)
        else if e = 110 then pushTo [10] (parseStr r1)
        else if e = 114 then pushTo [13] (parseStr r1)
        else if e = 116 then pushTo [9] (parseStr r1)
        else if e = 117 then
          match r1 with
          | h1 :: h2 :: h3 :: h4 :: r2 =>
            match hex4 h1 h2 h3 h4 with
            | none => none
            | some cp =>
              if 55296 ≤ cp ∧ cp ≤ 56319 then
                -- leading surrogate: a `\uDC00`–`\uDFFF` escape must follow
                match r2 with
                | b2 :: u2 :: l1 :: l2 :: l3 :: l4 :: r3 =>
                  if b2 = 92 ∧ u2 = 117 then
                    match hex4 l1 l2 l3 l4 with
                    | none => none
                    | some lo =>
                      if 56320 ≤ lo ∧ lo ≤ 57343 then
                        pushTo (utf8Enc (65536 + (cp - 55296) * 1024 + (lo - 56320))) (parseStr r3)
                      else none
                  else none
                | _ => none
              else if 56320 ≤ cp ∧ cp ≤ 57343 then none
              else pushTo (utf8Enc cp) (parseStr r2)
          | _ => none
        else none
    else if b < 32 then none
    else if b < 128 then pushTo [b] (parseStr r)
    else if 194 ≤ b ∧ b ≤ 223 then
      match r with
      | b1 :: r1 => if isCont b1 then pushTo [b, b1] (parseStr r1) else none
      | _ => none
    else if 224 ≤ b ∧ b ≤ 239 then
      match r with
      | b1 :: b2 :: r1 => if ok3 b b1 && isCont b2 then pushTo [b, b1, b2] (parseStr r1) else none
      | _ => none
    else if 240 ≤ b ∧ b ≤ 244 then
      match r with
      | b1 :: b2 :: b3 :: r1 =>
        if ok4 b b1 && isCont b2 && isCont b3 then pushTo [b, b1, b2, b3] (parseStr r1) else none
      | _ => none
    else none

/-- Consume a run of digits, accumulating the value. -/
def readDigits : Nat → List Nat → Nat × List Nat
  | acc, [] => (acc, [])
  | acc, c :: r => if isDigit c then readDigits (acc * 10 + (c - 48)) r else (acc, c :: r)

/-- Head of the rest after an integer must not continue a number. -/
def numEnd : List Nat → Bool
  | [] => true
  | c :: _ => !(isDigit c || c = 46 || c = 101 || c = 69)

/-- A non-negative integer without leading zeros, not followed by `.`/`e`/`E`. -/
def parseNat : List Nat → Option (Nat × List Nat)
  | [] => none
  | c :: r =>
    if !isDigit c then none
    else if c = 48 then (if numEnd r then some (0, r) else none)
    else
      let (n, r') := readDigits 0 (c :: r)
      if numEnd r' then some (n, r') else none

def parseNum : List Nat → Option (JVal × List Nat)
  | [] => none
  | c :: r =>
    if c = 45 then
      match parseNat r with
      | some (0, _) => none          -- `-0` is a float for serde_json: outside the fragment
      | some (m + 1, r') => some (.num (.negSucc m), r')
      | none => none
    else
      match parseNat (c :: r) with
      | some (n, r') => some (.num (.ofNat n), r')
      | none => none

def dropPrefix : List Nat → List Nat → Option (List Nat)
  | [], inp => some inp
  | _ :: _, [] => none
  | p :: ps, c :: r => if p = c then dropPrefix ps r else none

mutual
  def parseValue : Nat → List Nat → Option (JVal × List Nat)
    | 0, _ => none
    | f + 1, inp =>
      match skipWs inp with
      | [] => none
      | c :: r =>
        if c = 110 then (dropPrefix [117, 108, 108] r).map fun r' => (.null, r')
        else if c = 116 then (dropPrefix [114, 117, 101] r).map fun r' => (.bool true, r')
        else if c = 102 then (dropPrefix [97, 108, 115, 101] r).map fun r' => (.bool false, r')
        else if c = 34 then
          match parseStr r with
          | some (s, r') => some (.str s, r')
          | none => none
        else if c = 91 then
          match skipWs r with
          | [] => none
          | d :: r1 =>
            if d = 93 then some (.arr .nil, r1)
            else
              match parseValue f (d :: r1) with
              | none => none
              | some (v, r2) =>
                match parseElems f r2 with
                | none => none
                | some (vs, r3) => some (.arr (.cons v vs), r3)
        else if c = 123 then
          match skipWs r with
          | [] => none
          | d :: r1 =>
            if d = 125 then some (.obj .nil, r1)
            else if d = 34 then
              match parseStr r1 with
              | none => none
              | some (k, r2) =>
                match skipWs r2 with
                | [] => none
                | e :: r3 =>
                  if e = 58 then
                    match parseValue f r3 with
                    | none => none
                    | some (v, r4) =>
                      match parseMembers f r4 with
                      | none => none
                      | some (kvs, r5) => some (.obj (.cons k v kvs), r5)
                  else none
            else none
        else parseNum (c :: r)
  /-- After an element: `]` ends the array, `,` introduces another element. -/
  def parseElems : Nat → List Nat → Option (JList × List Nat)
    | 0, _ => none
    | f + 1, inp =>
      match skipWs inp with
      | [] => none
      | c :: r =>
        if c = 93 then some (.nil, r)
        else if c = 44 then
          match parseValue f r with
          | none => none
          | some (v, r2) =>
            match parseElems f r2 with
            | none => none
            | some (vs, r3) => some (.cons v vs, r3)
        else none
  /-- After a member: `}` ends the object, `,` introduces another member. -/
  def parseMembers : Nat → List Nat → Option (JFields × List Nat)
    | 0, _ => none
    | f + 1, inp =>
      match skipWs inp with
      | [] => none
      | c :: r =>
        if c = 125 then some (.nil, r)
        else if c = 44 then
          match skipWs r with
          | [] => none
          | q :: r1 =>
            if q = 34 then
              match parseStr r1 with
              | none => none
              | some (k, r2) =>
                match skipWs r2 with
                | [] => none
                | e :: r3 =>
                  if e = 58 then
                    match parseValue f r3 with
                    | none => none
                    | some (v, r4) =>
                      match parseMembers f r4 with
                      | none => none
                      | some (kvs, r5) => some (.cons k v kvs, r5)
                  else none
            else none
        else none
end

/-- Parse a complete document: one value, optional whitespace around it,
nothing else. -/
def parse (inp : List Nat) : Option JVal :=
  match parseValue (inp.length + 1) inp with
  | some (v, r) => if skipWs r = [] then some v else none
  | none => none

/-! ### measures and well-formedness -/

mutual
  /-- Nesting depth: scalars 0, a container one more than its deepest member. -/
  def JVal.depth : JVal → Nat
    | .arr xs => xs.depth + 1
    | .obj kvs => kvs.depth + 1
    | _ => 0
  def JList.depth : JList → Nat
    | .nil => 0
    | .cons x xs => max x.depth xs.depth
  def JFields.depth : JFields → Nat
    | .nil => 0
    | .cons _ v kvs => max v.depth kvs.depth
end

mutual
  /-- Every string and key is well-formed UTF-8 (true of anything serialized
  from Rust `String`s). -/
  def JVal.wf : JVal → Bool
    | .str s => utf8Ok s
    | .arr xs => xs.wf
    | .obj kvs => kvs.wf
    | _ => true
  def JList.wf : JList → Bool
    | .nil => true
    | .cons x xs => x.wf && xs.wf
  def JFields.wf : JFields → Bool
    | .nil => true
    | .cons k v kvs => utf8Ok k && v.wf && kvs.wf
end

mutual
  /-- Parser fuel that suffices for the printed form (≤ its length). -/
  def JVal.cost : JVal → Nat
    | .arr .nil => 1
    | .arr (.cons x xs) => 1 + x.cost + xs.cost
    | .obj .nil => 1
    | .obj (.cons _ v kvs) => 1 + v.cost + kvs.cost
    | _ => 1
  def JList.cost : JList → Nat
    | .nil => 1
    | .cons x xs => 1 + x.cost + xs.cost
  def JFields.cost : JFields → Nat
    | .nil => 1
    | .cons _ v kvs => 1 + v.cost + kvs.cost
end

mutual
  def JVal.beq : JVal → JVal → Bool
    | .null, .null => true
    | .bool a, .bool b => a == b
    | .num a, .num b => a == b
    | .str a, .str b => a == b
    | .arr a, .arr b => a.beq b
    | .obj a, .obj b => a.beq b
    | _, _ => false
  def JList.beq : JList → JList → Bool
    | .nil, .nil => true
    | .cons x xs, .cons y ys => x.beq y && xs.beq ys
    | _, _ => false
  def JFields.beq : JFields → JFields → Bool
    | .nil, .nil => true
    | .cons k v kvs, .cons k' v' kvs' => k == k' && v.beq v' && kvs.beq kvs'
    | _, _ => false
end

instance : BEq JVal := ⟨JVal.beq⟩

/-- First value stored under `k`. -/
def JFields.get? : JFields → List Nat → Option JVal
  | .nil, _ => none
  | .cons k v kvs, q => if k = q then some v else kvs.get? q

/-- Bytes of an ASCII string literal (for keys in models and drivers). -/
def ascii (s : String) : List Nat := s.toList.map Char.toNat

end Dropshot.Json
