/-
`schemars::visit::RemoveRefSiblings` (schemars 0.8.22, `visit.rs`), the visitor
of the `openapi3` settings that makes a `$ref` stand alone: an object that
holds a reference *and* anything else keeps everything else and gets the
reference as (the last) member of its `allOf`.  Children are visited first.

dropshot converts with `j2oas_schema`, which returns a reference as it is and
drops whatever stands beside it (`J2Oas.j2oas`, arm `some r`).  For a schema
that went through this visitor nothing stands beside a reference any more, so
nothing is dropped.  Definitions collected for parameters and response headers
(`schema_util.rs`, `ReferenceVisitor`) did not go through it before the repair
`6e97a32`.
-/
import DropshotModel.Schema

namespace Dropshot.Schema

def JSList.snoc : JSList → JS → JSList
  | .nil, x => .cons x .nil
  | .cons s rest, x => .cons s (rest.snoc x)

/-- `Schema::new_ref`. -/
def JS.newRef (r : String) : JS :=
  .obj none none none none none .none none none .none .none (some r) []

/-- `schema.subschemas().all_of` gets one more member. -/
def JSSubs.pushAllOf (subs : JSSubs) (x : JS) : JSSubs :=
  match subs with
  | .none => .some (.some (.cons x .nil)) .none .none .none .none .none .none
  | .some .none anyOf oneOf nt i t e => .some (.some (.cons x .nil)) anyOf oneOf nt i t e
  | .some (.some l) anyOf oneOf nt i t e => .some (.some (l.snoc x)) anyOf oneOf nt i t e

/-- `schema == &SchemaObject::default()` once the reference has been taken out. -/
def restIsDefault (md : Option Meta) (ty : Option (SV IType)) (fmt : Option String)
    (en : Option (List J)) (cv : Option J) (subs : JSSubs) (num : Option NumV)
    (str : Option StrV) (arr : JSArr) (ob : JSObjV) (ext : List (String × J)) : Bool :=
  md.isNone && ty.isNone && fmt.isNone && en.isNone && cv.isNone &&
  (match subs with | .none => true | _ => false) && num.isNone && str.isNone &&
  (match arr with | .none => true | _ => false) && (match ob with | .none => true | _ => false) &&
  ext.isEmpty

mutual
/-- `RemoveRefSiblings::visit_schema`. -/
def JS.rrs : JS → JS
  | .bool b => .bool b
  | .obj md ty fmt en cv subs num str arr ob rf ext =>
    let subs' := subs.rrs
    let arr' := arr.rrs
    let ob' := ob.rrs
    match rf with
    | none => .obj md ty fmt en cv subs' num str arr' ob' none ext
    | some r =>
      if restIsDefault md ty fmt en cv subs' num str arr' ob' ext then
        .obj md ty fmt en cv subs' num str arr' ob' (some r) ext
      else
        .obj md ty fmt en cv (subs'.pushAllOf (JS.newRef r)) num str arr' ob' none ext
def JSOpt.rrs : JSOpt → JSOpt
  | .none => .none
  | .some s => .some s.rrs
def JSList.rrs : JSList → JSList
  | .nil => .nil
  | .cons s rest => .cons s.rrs rest.rrs
def JSOptList.rrs : JSOptList → JSOptList
  | .none => .none
  | .some l => .some l.rrs
def JSSubs.rrs : JSSubs → JSSubs
  | .none => .none
  | .some a b c n i t e => .some a.rrs b.rrs c.rrs n.rrs i.rrs t.rrs e.rrs
def JSItems.rrs : JSItems → JSItems
  | .none => .none
  | .single s => .single s.rrs
  | .vec l => .vec l.rrs
def JSArr.rrs : JSArr → JSArr
  | .none => .none
  | .some items addl mx mn u c => .some items.rrs addl.rrs mx mn u c.rrs
def JSProps.rrs : JSProps → JSProps
  | .nil => .nil
  | .cons k s rest => .cons k s.rrs rest.rrs
def JSObjV.rrs : JSObjV → JSObjV
  | .none => .none
  | .some mx mn req props pprops addl pn => .some mx mn req props.rrs pprops.rrs addl.rrs pn.rrs
end

end Dropshot.Schema

namespace Dropshot.Schema

mutual
/-- No object of the schema holds a reference together with anything else. -/
def JS.refsAlone : JS → Bool
  | .bool _ => true
  | .obj md ty fmt en cv subs num str arr ob rf ext =>
    subs.refsAlone && arr.refsAlone && ob.refsAlone &&
    (rf.isNone || restIsDefault md ty fmt en cv subs num str arr ob ext)
def JSOpt.refsAlone : JSOpt → Bool
  | .none => true
  | .some s => s.refsAlone
def JSList.refsAlone : JSList → Bool
  | .nil => true
  | .cons s rest => s.refsAlone && rest.refsAlone
def JSOptList.refsAlone : JSOptList → Bool
  | .none => true
  | .some l => l.refsAlone
def JSSubs.refsAlone : JSSubs → Bool
  | .none => true
  | .some a b c n i t e =>
    a.refsAlone && b.refsAlone && c.refsAlone && n.refsAlone && i.refsAlone && t.refsAlone && e.refsAlone
def JSItems.refsAlone : JSItems → Bool
  | .none => true
  | .single s => s.refsAlone
  | .vec l => l.refsAlone
def JSArr.refsAlone : JSArr → Bool
  | .none => true
  | .some items addl _ _ _ c => items.refsAlone && addl.refsAlone && c.refsAlone
def JSProps.refsAlone : JSProps → Bool
  | .nil => true
  | .cons _ s rest => s.refsAlone && rest.refsAlone
def JSObjV.refsAlone : JSObjV → Bool
  | .none => true
  | .some _ _ _ props pprops addl pn => props.refsAlone && pprops.refsAlone && addl.refsAlone && pn.refsAlone
end

end Dropshot.Schema
